package c19

// Newline-delimited framing (prop "ndjson"): an mcp.IOTransport connection over a
// memio pipe. "in" steps write harness-made bytes on the raw end and read them
// with Connection.Read; "out" steps write SDK values with Connection.Write and
// read the raw bytes back. Batches (JSON arrays) are used where the transport
// allows them: incoming arrays, and the array the transport emits once every
// call of an incoming batch has been answered.

import (
	"bufio"
	"context"
	"encoding/json"
	"fmt"
	"io"
	"strconv"
	"strings"
	"testing"

	"github.com/modelcontextprotocol/go-sdk/mcp"
	"github.com/modelcontextprotocol/go-sdk/verif/memio"
	"github.com/modelcontextprotocol/go-sdk/verif/vt"
	"pgregory.net/rapid"
)

type NDStep struct {
	Kind    string     `json:"kind"`            // in | inbatch | out | answer
	Wire    string     `json:"wire,omitempty"`  // in
	Wires   []string   `json:"wires,omitempty"` // inbatch
	Sep     string     `json:"sep,omitempty"`   // inbatch: text between array elements
	CRLF    bool       `json:"crlf,omitempty"`  // in/inbatch: line ends in \r\n
	Msg     *MsgModel  `json:"msg,omitempty"`   // out
	Answers []MsgModel `json:"answers,omitempty"`
	// Spread (out/answer): the params, result and error data handed to Write as raw JSON are laid out over several
	// lines (white space between tokens, as an indenting encoder or a forwarded pretty-printed message has it).
	Spread bool `json:"spread,omitempty"`
}

// spread lays a JSON text out over several lines: same value, line breaks and indentation between tokens.
func spread(s string) string {
	var b strings.Builder
	inStr, esc := false, false
	for i := 0; i < len(s); i++ {
		c := s[i]
		if inStr {
			b.WriteByte(c)
			switch {
			case esc:
				esc = false
			case c == '\\':
				esc = true
			case c == '"':
				inStr = false
			}
			continue
		}
		switch c {
		case '"':
			inStr = true
			b.WriteByte(c)
		case '{', '[', ',':
			b.WriteByte(c)
			b.WriteString("\n  ")
		case '}', ']':
			b.WriteString("\r\n")
			b.WriteByte(c)
		case ':':
			b.WriteString(": ")
		default:
			b.WriteByte(c)
		}
	}
	return b.String()
}

func (m MsgModel) spread() MsgModel {
	if m.Params != "" {
		m.Params = spread(m.Params)
	}
	if m.Result != "" {
		m.Result = spread(m.Result)
	}
	if m.Data != "" {
		m.Data = spread(m.Data)
	}
	return m
}

type NDScript struct {
	Steps []NDStep `json:"steps"`
}

// uniq makes the id of m distinct from every id used so far in the script.
func uniq(used map[string]bool, m *MsgModel) {
	if m.ID.Kind == "" {
		return
	}
	for n := 1; used[m.ID.token(0)]; n++ {
		if m.ID.Kind == "s" {
			m.ID.Str += "#" + strconv.Itoa(n)
		} else if m.ID.Int > 0 {
			m.ID.Int -= int64(n)
		} else {
			m.ID.Int += int64(n)
		}
	}
	used[m.ID.token(0)] = true
}

func renderWire(rt *rapid.T, m MsgModel) string {
	g := &jgen{rt: rt, ws: rapid.IntRange(0, 2).Draw(rt, "line_ws")}
	return renderMembers(wireMembers(rt, m, g), g, 0)
}

func genND(rt *rapid.T) NDScript {
	var s NDScript
	used := map[string]bool{}
	var owed [][]MsgModel // answers still to be written, per batch
	n := rapid.IntRange(1, 6).Draw(rt, "steps")
	for i := 0; i < n; i++ {
		kinds := []string{"in", "in", "inbatch", "inbatch", "out", "out"}
		if len(owed) > 0 {
			kinds = append(kinds, "answer", "answer", "answer")
		}
		st := NDStep{Kind: rapid.SampledFrom(kinds).Draw(rt, "step")}
		switch st.Kind {
		case "in":
			m := genMsgModel(rt, allKinds)
			uniq(used, &m)
			st.Wire = renderWire(rt, m)
			st.CRLF = rapid.IntRange(0, 3).Draw(rt, "crlf") == 0
		case "inbatch":
			k := rapid.IntRange(1, 4).Draw(rt, "batch_n")
			var answers []MsgModel
			for j := 0; j < k; j++ {
				m := genMsgModel(rt, allKinds)
				uniq(used, &m)
				st.Wires = append(st.Wires, renderWire(rt, m))
				if m.Kind == "call" {
					a := genMsgModel(rt, []string{"result", "error"})
					a.ID = m.ID
					answers = append(answers, a)
				}
			}
			st.Sep = rapid.SampledFrom([]string{",", ", ", " ,\t"}).Draw(rt, "sep")
			st.CRLF = rapid.IntRange(0, 3).Draw(rt, "crlf") == 0
			if len(answers) > 0 {
				owed = append(owed, rapid.Permutation(answers).Draw(rt, "answer_order"))
			}
		case "out":
			m := genMsgModel(rt, allKinds)
			uniq(used, &m)
			st.Msg = &m
			st.Spread = rapid.IntRange(0, 3).Draw(rt, "spread") == 0
		case "answer":
			j := rapid.IntRange(0, len(owed)-1).Draw(rt, "which_batch")
			st.Spread = rapid.IntRange(0, 3).Draw(rt, "spread") == 0
			st.Answers = owed[j]
			owed = append(owed[:j], owed[j+1:]...)
		}
		s.Steps = append(s.Steps, st)
	}
	return s
}

func runND(s NDScript) (res vt.Result) {
	if p := vt.Bubble(theT, func() { runNDInner(s, &res) }); p != "" {
		res.Failf("the connection got stuck (a message that was written never arrived): %s", p)
	}
	return res
}

func runNDInner(s NDScript, res *vt.Result) {
	a, b := memio.NewPipe()
	conn, err := (&mcp.IOTransport{Reader: a, Writer: a}).Connect(context.Background())
	if err != nil {
		res.Failf("harness: Connect: %v", err)
		return
	}
	raw := bufio.NewReader(b)
	defer b.Close()
	defer conn.Close()
	ctx := context.Background()
	var desc strings.Builder
	note := func(e env) {
		if idClass(e) == "id:beyond-2^53" {
			res.NonTrivial = true
		}
		res.Class(idClass(e))
	}
	// readLine reads one raw line the SDK wrote.
	readLine := func(step int) ([]byte, bool) {
		line, err := raw.ReadBytes('\n')
		if err != nil {
			res.Failf("step %d: reading the SDK's output: %v (got %q)", step, err, line)
			return nil, false
		}
		return line[:len(line)-1], true
	}
	// batchRefused: does a fresh connection refuse even the plainest batch? (JSON-RPC batches are not the
	// property's subject and are promised by no exported documentation; an SDK without them is accepted.)
	batchRefused := func() bool {
		a2, b2 := memio.NewPipe()
		c2, err := (&mcp.IOTransport{Reader: a2, Writer: a2}).Connect(context.Background())
		if err != nil {
			return false
		}
		defer b2.Close()
		defer c2.Close()
		b2.Write([]byte(`[{"jsonrpc":"2.0","method":"probe"}]` + "\n"))
		_, err = c2.Read(ctx)
		return err != nil
	}
	readIn := func(step int, wire string) bool {
		want, err := readEnv([]byte(wire))
		if err != nil || !validEnv(want) {
			res.Failf("harness: step %d: generated line is not a valid message (%v): %s", step, err, wire)
			return false
		}
		note(want)
		msg, err := conn.Read(ctx)
		if err != nil {
			res.Failf("step %d: Connection.Read fails on a valid %s: %v\n line: %s", step, envKind(want), err, wire)
			return false
		}
		got, err := envOfMsg(msg)
		if err != nil {
			res.Failf("step %d: message read is unusable: %v\n line: %s", step, err, wire)
			return false
		}
		if d := diffEnv(want, got); d != "" {
			res.Failf("step %d: message read through the ndjson framing differs from the line written: %s\n line: %s", step, d, wire)
			return false
		}
		return true
	}
	for i, st := range s.Steps {
		fmt.Fprintf(&desc, "%s;", st.Kind)
		res.Class("step:" + st.Kind)
		eol := "\n"
		if st.CRLF {
			eol = "\r\n"
		}
		switch st.Kind {
		case "in":
			desc.WriteString(st.Wire)
			b.Write([]byte(st.Wire + eol))
			if !readIn(i, st.Wire) {
				return
			}
		case "inbatch":
			line := "[" + strings.Join(st.Wires, st.Sep) + "]"
			desc.WriteString(line)
			res.Class(fmt.Sprintf("batch-in:%d", len(st.Wires)))
			b.Write([]byte(line + eol))
			for j, w := range st.Wires {
				if !readIn(i, w) {
					if j == 0 && batchRefused() {
						// accepted: this SDK has no batches at all (the connection is spent: the script ends here)
						res.Violations = res.Violations[:len(res.Violations)-1]
						res.Class("batch-refused")
						res.Desc = desc.String()
					}
					return
				}
			}
		case "out":
			want := st.Msg.env()
			note(want)
			desc.WriteString(want.String())
			out := *st.Msg
			if st.Spread {
				out = out.spread()
				res.Class("raw_payload_laid_out_over_several_lines")
			}
			if err := conn.Write(ctx, out.build()); err != nil {
				res.Failf("step %d: Connection.Write of a valid %s failed: %v", i, st.Msg.Kind, err)
				return
			}
			line, ok := readLine(i)
			if !ok {
				return
			}
			got, err := readEnv(line)
			if err != nil {
				res.Failf("step %d: the line written is not one JSON-RPC message (%v): %q", i, err, line)
				return
			}
			if d := diffEnv(want, got); d != "" {
				res.Failf("step %d: line written differs from the message given to Write: %s\n line: %s", i, d, line)
				return
			}
		case "answer":
			res.Class(fmt.Sprintf("batch-out:%d", len(st.Answers)))
			wantByID := map[string]env{}
			for _, am := range st.Answers {
				e := am.env()
				note(e)
				desc.WriteString(e.String())
				wantByID[e.idToken()] = e
				if st.Spread {
					am = am.spread()
				}
				if err := conn.Write(ctx, am.build()); err != nil {
					res.Failf("step %d: Connection.Write of a response to a batched call failed: %v", i, err)
					return
				}
			}
			line, ok := readLine(i)
			if !ok {
				return
			}
			var arr []json.RawMessage
			if err := json.Unmarshal(line, &arr); err != nil || arr == nil {
				// accepted: the responses written one per line instead of re-assembled into one array (the
				// property is about each message surviving the framing, not about batches)
				if _, err := readEnv(line); err != nil {
					res.Failf("step %d: responses to a batch must be written as one JSON array line or one per line, got %q", i, line)
					return
				}
				arr = []json.RawMessage{line}
				for len(arr) < len(st.Answers) {
					more, ok := readLine(i)
					if !ok {
						return
					}
					arr = append(arr, more)
				}
				res.Class("batch-out-unbatched")
			}
			if len(arr) != len(st.Answers) {
				res.Failf("step %d: batch reply has %d responses, want %d: %s", i, len(arr), len(st.Answers), line)
				return
			}
			for _, el := range arr {
				got, err := readEnv(el)
				if err != nil {
					res.Failf("step %d: batch reply element is not a JSON-RPC message (%v): %s", i, err, el)
					return
				}
				want, ok := wantByID[got.idToken()]
				if !ok {
					res.Failf("step %d: batch reply carries id %s which answers none of the batch's calls (or answers one twice): %s", i, got.idToken(), line)
					return
				}
				delete(wantByID, got.idToken())
				if d := diffEnv(want, got); d != "" {
					res.Failf("step %d: batched response differs from the one given to Write: %s\n line: %s", i, d, line)
					return
				}
			}
		}
	}
	conn.Close()
	if rest, _ := io.ReadAll(raw); len(rest) > 0 {
		res.Failf("the connection wrote bytes nobody asked for: %q", rest)
	}
	res.Desc = desc.String()
}

var ndProp = vt.Register(&vt.Prop[NDScript]{Property: "C19", Name: "ndjson", Gen: genND, Run: runND})

func TestC19_NDJSON(t *testing.T) { theT = t; ndProp.Check(t) }
