package c19

// Messages the SDK sends (prop "serve"): a real mcp.Server is driven by a raw
// peer over ndjson (memio) or over the streamable HTTP handler (memhttp, SSE or
// JSON responses; the SSE body is read with the independent memhttp.ParseSSE).
// Handlers return generated values - including nil and empty slices - and the
// server itself issues sampling requests. Every message the server writes is
// read independently: the id is echoed exactly, the result/params carry the
// model's data, and the required members (content arrays, text, data, list
// arrays) are present and not null. This is also the writing side of the SSE
// framing round-trip.

import (
	"context"
	"encoding/json"
	"fmt"
	"io"
	"net/http"
	"sort"
	"strings"
	"testing"
	"testing/synctest"

	"github.com/modelcontextprotocol/go-sdk/mcp"
	"github.com/modelcontextprotocol/go-sdk/verif/memhttp"
	"github.com/modelcontextprotocol/go-sdk/verif/memio"
	"github.com/modelcontextprotocol/go-sdk/verif/vt"
	"pgregory.net/rapid"
)

type ServeOp struct {
	Op  string     `json:"op"` // tools/list prompts/list resources/list resources/templates/list tools/call prompts/get resources/read sampling sampling-tools
	ID  IDModel    `json:"id"`
	Esc int        `json:"esc,omitempty"`
	Val *ValScript `json:"val,omitempty"`
}

type ServeScript struct {
	Transport string    `json:"transport"` // ndjson | stream-sse | stream-json
	Version   string    `json:"version"`
	Templates int       `json:"templates"` // resource templates registered
	ExtraTool bool      `json:"extra_tool,omitempty"`
	Ops       []ServeOp `json:"ops"`
	// Batch (streamable transports, protocol 2025-03-26 only): all ops are POSTed as one JSON-RPC batch; the
	// answers come back as one JSON array (JSON mode) or as the events of one stream (SSE mode).
	Batch bool `json:"batch,omitempty"`
	// Spell: memio.Respell mode for what the peer sends over HTTP (equivalent JSON spellings, white space
	// around the text)
	Spell int `json:"spell,omitempty"`
}

func genServe(rt *rapid.T) ServeScript {
	s := ServeScript{
		Transport: rapid.SampledFrom([]string{"ndjson", "stream-sse", "stream-sse", "stream-json"}).Draw(rt, "transport"),
		Version:   rapid.SampledFrom([]string{"2025-03-26", "2025-06-18", "2025-11-25"}).Draw(rt, "version"),
		Templates: rapid.IntRange(0, 2).Draw(rt, "templates"),
		ExtraTool: rapid.Bool().Draw(rt, "extra_tool"),
	}
	ops := []string{"tools/list", "prompts/list", "resources/list", "resources/templates/list", "tools/call", "tools/call", "tools/call", "prompts/get", "prompts/get", "resources/read"}
	if s.Transport == "ndjson" {
		ops = append(ops, "sampling", "sampling-tools", "sampling-tools")
	}
	if s.Transport != "ndjson" && s.Version == "2025-03-26" {
		s.Batch = rapid.Bool().Draw(rt, "batch")
	}
	if s.Transport != "ndjson" {
		s.Spell = rapid.SampledFrom([]int{0, 0, 4, 5}).Draw(rt, "spell")
	}
	used := map[string]bool{`"hs"`: true}
	n := rapid.IntRange(1, 5).Draw(rt, "ops")
	for i := 0; i < n; i++ {
		op := ServeOp{Op: rapid.SampledFrom(ops).Draw(rt, "op"), Esc: rapid.IntRange(0, 3).Draw(rt, "id_esc")}
		if !strings.HasPrefix(op.Op, "sampling") {
			m := MsgModel{ID: genIDModel(rt, "id")}
			uniq(used, &m)
			op.ID = m.ID
		}
		kind := map[string]string{"tools/call": "CallToolResult", "prompts/get": "GetPromptResult", "resources/read": "ReadResourceResult",
			"sampling": "CreateMessageParams", "sampling-tools": "CreateMessageWithToolsParams"}[op.Op]
		if kind != "" {
			v := genValOf(rt, kind)
			switch kind {
			case "GetPromptResult":
				if v.NilList && vt.Open("F17") {
					vt.Excluded("F17")
					v.NilList = false
				}
			case "ReadResourceResult":
				// a handler returning nil Contents is answered with an error; the server fills in
				// an empty URI/MIME type from the registration: keep both out by construction
				v.NilList = false
				for j := range v.Resources {
					if v.Resources[j].URI == "" {
						v.Resources[j].URI = "res://filled"
					}
				}
			}
			op.Val = &v
		}
		s.Ops = append(s.Ops, op)
	}
	return s
}

func (s ServeScript) counts() (tools, prompts, resources int) {
	for _, op := range s.Ops {
		switch op.Op {
		case "tools/call":
			tools = 1
		case "prompts/get":
			prompts = 1
		case "resources/read":
			resources++
		}
	}
	if s.ExtraTool {
		tools++
	}
	return
}

func (s ServeScript) hasEcho() bool {
	for _, op := range s.Ops {
		if op.Op == "tools/call" {
			return true
		}
	}
	return false
}

func (s ServeScript) newServer() *mcp.Server {
	server := mcp.NewServer(&mcp.Implementation{Name: "c19", Version: "0"}, nil)
	_, prompts, _ := s.counts()
	pick := func(k int, kind string) (*ValScript, error) {
		if k < 0 || k >= len(s.Ops) || s.Ops[k].Val == nil || s.Ops[k].Val.Kind != kind {
			return nil, fmt.Errorf("harness: no %s at op %d", kind, k)
		}
		return s.Ops[k].Val, nil
	}
	if s.hasEcho() {
		server.AddTool(&mcp.Tool{Name: "echo", InputSchema: map[string]any{"type": "object"}}, func(ctx context.Context, req *mcp.CallToolRequest) (*mcp.CallToolResult, error) {
			var args struct{ K int }
			if err := json.Unmarshal(req.Params.Arguments, &args); err != nil {
				return nil, err
			}
			v, err := pick(args.K, "CallToolResult")
			if err != nil {
				return nil, err
			}
			out, _ := v.build()
			return out.(*mcp.CallToolResult), nil
		})
	}
	if s.ExtraTool {
		server.AddTool(&mcp.Tool{Name: "other", InputSchema: map[string]any{"type": "object"}}, func(ctx context.Context, req *mcp.CallToolRequest) (*mcp.CallToolResult, error) {
			return &mcp.CallToolResult{}, nil
		})
	}
	if prompts > 0 {
		server.AddPrompt(&mcp.Prompt{Name: "echo"}, func(ctx context.Context, req *mcp.GetPromptRequest) (*mcp.GetPromptResult, error) {
			var k int
			fmt.Sscan(req.Params.Arguments["k"], &k)
			v, err := pick(k, "GetPromptResult")
			if err != nil {
				return nil, err
			}
			out, _ := v.build()
			return out.(*mcp.GetPromptResult), nil
		})
	}
	for i, op := range s.Ops {
		if op.Op != "resources/read" {
			continue
		}
		server.AddResource(&mcp.Resource{URI: fmt.Sprintf("res://r/%d", i), Name: fmt.Sprintf("r%d", i)}, func(ctx context.Context, req *mcp.ReadResourceRequest) (*mcp.ReadResourceResult, error) {
			v, err := pick(i, "ReadResourceResult")
			if err != nil {
				return nil, err
			}
			out, _ := v.build()
			return out.(*mcp.ReadResourceResult), nil
		})
	}
	for i := 0; i < s.Templates; i++ {
		server.AddResourceTemplate(&mcp.ResourceTemplate{URITemplate: fmt.Sprintf("tpl%d://{x}", i), Name: fmt.Sprintf("tpl%d", i)}, func(ctx context.Context, req *mcp.ReadResourceRequest) (*mcp.ReadResourceResult, error) {
			return &mcp.ReadResourceResult{Contents: []*mcp.ResourceContents{{URI: req.Params.URI, Text: "t"}}}, nil
		})
	}
	return server
}

// request renders the raw request line of op i (harness writer).
func (s ServeScript) request(i int) string {
	op := s.Ops[i]
	id := op.ID.token(op.Esc)
	switch op.Op {
	case "tools/call":
		return fmt.Sprintf(`{"jsonrpc":"2.0","id":%s,"method":"tools/call","params":{"name":"echo","arguments":{"k":%d}}}`, id, i)
	case "prompts/get":
		return fmt.Sprintf(`{"jsonrpc":"2.0","id":%s,"method":"prompts/get","params":{"name":"echo","arguments":{"k":"%d"}}}`, id, i)
	case "resources/read":
		return fmt.Sprintf(`{"jsonrpc":"2.0","id":%s,"method":"resources/read","params":{"uri":"res://r/%d"}}`, id, i)
	}
	return fmt.Sprintf(`{"jsonrpc":"2.0","id":%s,"method":%q,"params":{}}`, id, op.Op)
}

// checkResponse judges the response to op i.
func (s ServeScript) checkResponse(res *vt.Result, i int, raw json.RawMessage) {
	op := s.Ops[i]
	what := fmt.Sprintf("op %d (%s over %s): response %s", i, op.Op, s.Transport, raw)
	e, err := readEnv(raw)
	if err != nil {
		res.Failf("%s: not a JSON-RPC message: %v", what, err)
		return
	}
	want := MsgModel{Kind: "result", ID: op.ID, Result: "0"}.env()
	if e.idToken() != want.idToken() || e.IDIsString != want.IDIsString {
		res.Failf("%s: id %s is not the request's id %s", what, e.idToken(), want.idToken())
		return
	}
	if e.HasError || !e.HasResult {
		res.Failf("%s: want a result (the handler returned a value)", what)
		return
	}
	m, _ := members(raw)
	k := &jsonChecker{res: res, what: what, metaSuperset: true}
	tools, prompts, resources := s.counts()
	listLen := map[string]int{"tools/list": tools, "prompts/list": prompts, "resources/list": resources, "resources/templates/list": s.Templates}
	if op.Val != nil {
		op.Val.checkJSON(k, m["result"], false)
		return
	}
	rm, err := members(m["result"])
	if err != nil {
		k.failf("result is not an object")
		return
	}
	key := map[string]string{"tools/list": "tools", "prompts/list": "prompts", "resources/list": "resources", "resources/templates/list": "resourceTemplates"}[op.Op]
	arr := k.list("$.result", rm, key, listLen[op.Op], false)
	var names []string
	for _, el := range arr {
		var it struct{ Name string }
		json.Unmarshal(el, &it)
		names = append(names, it.Name)
	}
	sort.Strings(names)
	var wantNames []string
	switch op.Op {
	case "tools/list":
		if s.hasEcho() {
			wantNames = append(wantNames, "echo")
		}
		if s.ExtraTool {
			wantNames = append(wantNames, "other")
		}
	case "prompts/list":
		if prompts > 0 {
			wantNames = append(wantNames, "echo")
		}
	case "resources/list":
		for j, o := range s.Ops {
			if o.Op == "resources/read" {
				wantNames = append(wantNames, fmt.Sprintf("r%d", j))
			}
		}
	default:
		for j := 0; j < s.Templates; j++ {
			wantNames = append(wantNames, fmt.Sprintf("tpl%d", j))
		}
	}
	sort.Strings(wantNames)
	if arr != nil && strings.Join(names, ",") != strings.Join(wantNames, ",") {
		k.failf("$.result.%s lists %v, want %v", key, names, wantNames)
	}
}

// checkSampling judges a sampling/createMessage request the server wrote.
func (s ServeScript) checkSampling(res *vt.Result, i int, raw json.RawMessage) (idTok string) {
	what := fmt.Sprintf("op %d (%s): request written by the server %s", i, s.Ops[i].Op, raw)
	e, err := readEnv(raw)
	if err != nil {
		res.Failf("%s: not a JSON-RPC message: %v", what, err)
		return ""
	}
	if !e.HasMethod || e.Method != "sampling/createMessage" || !e.HasID || !e.HasParams {
		res.Failf("%s: want a sampling/createMessage call with params", what)
		return ""
	}
	m, _ := members(raw)
	s.Ops[i].Val.checkJSON(&jsonChecker{res: res, what: what, metaSuperset: true}, m["params"], false)
	return string(m["id"])
}

func runServe(s ServeScript) (res vt.Result) {
	if p := vt.Bubble(theT, func() { runServeInner(s, &res) }); p != "" {
		res.Failf("bubble did not end cleanly: %s", p)
	}
	return res
}

const initFmt = `{"jsonrpc":"2.0","id":"hs","method":"initialize","params":{"protocolVersion":%q,"capabilities":{"sampling":{"tools":{}}},"clientInfo":{"name":"raw","version":"0"}}}`

func runServeInner(s ServeScript, res *vt.Result) {
	sj, _ := json.Marshal(s)
	res.Desc = string(sj)
	res.Class("transport:"+s.Transport, "version:"+s.Version)
	for _, op := range s.Ops {
		res.Class("op:" + op.Op)
		if op.ID.big() {
			res.NonTrivial = true
			res.Class("id:beyond-2^53")
		}
		if op.Val != nil {
			if nt, d := op.Val.nonTrivial(); nt {
				res.NonTrivial = true
				res.Class(fmt.Sprintf("content-depth:%d", d))
				if op.Val.NilList {
					res.Class("nil-slice:" + op.Val.Kind)
				}
			}
		} else if strings.HasSuffix(op.Op, "/list") {
			tools, prompts, resources := s.counts()
			if n := map[string]int{"tools/list": tools, "prompts/list": prompts, "resources/list": resources, "resources/templates/list": s.Templates}[op.Op]; n == 0 {
				res.NonTrivial = true
				res.Class("nil-slice:" + op.Op)
			}
		}
	}
	server := s.newServer()
	if s.Transport == "ndjson" {
		serveNDJSON(s, server, res)
	} else {
		serveHTTP(s, server, res)
	}
}

func serveNDJSON(s ServeScript, server *mcp.Server, res *vt.Result) {
	a, b := memio.NewPipe()
	ss, err := server.Connect(context.Background(), &mcp.IOTransport{Reader: a, Writer: a}, nil)
	if err != nil {
		res.Failf("harness: %v", err)
		return
	}
	peer := memio.NewRawPeer(b)
	defer func() {
		peer.Close()
		ss.Close()
	}()
	peer.Send(fmt.Sprintf(initFmt, s.Version))
	synctest.Wait()
	peer.Send(`{"jsonrpc":"2.0","method":"notifications/initialized"}`)
	synctest.Wait()
	seen := len(peer.Received())
	answers := 0 // notifications, which the server is free to send at any time, do not count
	for _, line := range peer.Received() {
		if e, err := readEnv(line); !(err == nil && e.HasMethod && !e.HasID) {
			answers++
		}
	}
	if answers != 1 {
		res.Failf("harness: handshake produced %d messages", answers)
		return
	}
	// next returns the single new request/response the server wrote since the last call
	// (notifications, which the server is free to send at any time, are not judged here).
	next := func(i int) (json.RawMessage, bool) {
		synctest.Wait()
		recv := peer.Received()
		var fresh []json.RawMessage
		for _, line := range recv[seen:] {
			if e, err := readEnv(line); err == nil && e.HasMethod && !e.HasID {
				continue
			}
			fresh = append(fresh, line)
		}
		seen = len(recv)
		if len(fresh) != 1 {
			res.Failf("op %d (%s): the server wrote %d messages, want exactly 1: %s", i, s.Ops[i].Op, len(fresh), fresh)
			return nil, false
		}
		return fresh[0], true
	}
	for i, op := range s.Ops {
		if !strings.HasPrefix(op.Op, "sampling") {
			peer.Send(s.request(i))
			if raw, ok := next(i); ok {
				s.checkResponse(res, i, raw)
			}
			if len(res.Violations) > 0 {
				return
			}
			continue
		}
		done := make(chan error, 1)
		v, _ := op.Val.build()
		go func() {
			var err error
			if op.Op == "sampling" {
				_, err = ss.CreateMessage(context.Background(), v.(*mcp.CreateMessageParams))
			} else {
				_, err = ss.CreateMessageWithTools(context.Background(), v.(*mcp.CreateMessageWithToolsParams))
			}
			done <- err
		}()
		raw, ok := next(i)
		if !ok {
			select {
			case err := <-done:
				res.Failf("op %d: the sampling call returned early: %v", i, err)
			default:
			}
			return
		}
		idTok := s.checkSampling(res, i, raw)
		if idTok == "" || len(res.Violations) > 0 {
			return
		}
		peer.Send(fmt.Sprintf(`{"jsonrpc":"2.0","id":%s,"result":{"role":"assistant","model":"m","content":{"type":"text","text":"ok"}}}`, idTok))
		synctest.Wait()
		select {
		case err := <-done:
			if err != nil {
				res.Failf("op %d: the sampling call failed although the peer answered it: %v", i, err)
				return
			}
		default:
			res.Failf("op %d: the sampling call did not return after its response was delivered", i)
			return
		}
	}
}

func serveHTTP(s ServeScript, server *mcp.Server, res *vt.Result) {
	tr := &memhttp.Transport{Handler: mcp.NewStreamableHTTPHandler(func(*http.Request) *mcp.Server { return server },
		&mcp.StreamableHTTPOptions{JSONResponse: s.Transport == "stream-json"})}
	client := tr.Client()
	sessionID := ""
	defer func() {
		for ss := range server.Sessions() {
			go ss.Close()
		}
		synctest.Wait()
	}()
	post := func(body string) *memhttp.Exchange {
		req, _ := http.NewRequestWithContext(context.Background(), "POST", "http://mcp.example/mcp", strings.NewReader(body))
		req.Header.Set("Content-Type", "application/json")
		req.Header.Set("Accept", "application/json, text/event-stream")
		if sessionID != "" {
			req.Header.Set("Mcp-Session-Id", sessionID)
			if s.Version >= "2025-06-18" {
				req.Header.Set("Mcp-Protocol-Version", s.Version)
			}
		}
		before := len(tr.Exchanges())
		go func() {
			resp, err := client.Do(req)
			if err == nil {
				io.Copy(io.Discard, resp.Body)
				resp.Body.Close()
			}
		}()
		synctest.Wait()
		exs := tr.Exchanges()
		if len(exs) <= before {
			return nil
		}
		return exs[before]
	}
	ex := post(fmt.Sprintf(initFmt, s.Version))
	if ex == nil || ex.Status() != 200 {
		res.Failf("harness: initialize POST failed")
		return
	}
	sessionID = ex.RespHeader().Get("Mcp-Session-Id")
	if ex2 := post(`{"jsonrpc":"2.0","method":"notifications/initialized"}`); ex2 == nil || ex2.Status() != 202 {
		res.Failf("harness: initialized POST failed")
		return
	}
	if s.Batch {
		var wires []string
		for i := range s.Ops {
			wires = append(wires, s.request(i))
		}
		ex := post(memio.Respell("["+strings.Join(wires, ",")+"]", s.Spell))
		if ex == nil || ex.Status() != 200 {
			st := -1
			if ex != nil {
				st = ex.Status()
			}
			// JSON-RPC batches are not the property's subject and are promised by no exported documentation: a
			// server that refuses them altogether is accepted - but only if it also refuses the plainest
			// spelling of the same batch (a refusal that depends on the spelling is a framing defect).
			if st >= 400 && st < 500 {
				if ex2 := post("[" + strings.Join(wires, ",") + "]"); ex2 != nil && ex2.Status() == st {
					res.Class("http-batch-refused")
					return
				}
			}
			res.Failf("batch of %d calls: POST answered HTTP %d", len(wires), st)
			return
		}
		res.Class(fmt.Sprintf("http-batch:%d", len(wires)))
		ct := ex.RespHeader().Get("Content-Type")
		body := ex.Written()
		var payloads []json.RawMessage
		switch {
		case strings.HasPrefix(ct, "text/event-stream") && s.Transport == "stream-sse":
			for _, ev := range memhttp.ParseSSE(body) {
				if ev.Name != "" && ev.Name != "message" {
					continue
				}
				if e, err := readEnv([]byte(ev.Data)); ev.Data != "" && !(err == nil && e.HasMethod && !e.HasID) {
					payloads = append(payloads, json.RawMessage(ev.Data))
				}
			}
		case strings.HasPrefix(ct, "application/json"): // (also legal without JSONResponse: the spec lets the server choose)
			if len(wires) == 1 {
				// a batch of one may be answered by the bare response or by an array of one
				if err := json.Unmarshal(body, &payloads); err != nil {
					payloads = []json.RawMessage{body}
				}
			} else if err := json.Unmarshal(body, &payloads); err != nil {
				res.Failf("batch of %d calls: the JSON response body is not an array of messages: %v: %s", len(wires), err, body)
				return
			}
		default:
			res.Failf("batch: response Content-Type %q over %s", ct, s.Transport)
			return
		}
		if len(payloads) != len(wires) {
			res.Failf("batch of %d calls: the response carries %d messages: %s", len(wires), len(payloads), body)
			return
		}
		// answers may come in any order: match them to the calls by id
		answered := map[int]bool{}
		for _, raw := range payloads {
			e, err := readEnv(raw)
			if err != nil {
				res.Failf("batch: a response element is not a JSON-RPC message (%v): %s", err, raw)
				return
			}
			hit := -1
			for i, op := range s.Ops {
				want := MsgModel{Kind: "result", ID: op.ID, Result: "0"}.env()
				if !answered[i] && e.idToken() == want.idToken() && e.IDIsString == want.IDIsString {
					hit = i
					break
				}
			}
			if hit < 0 {
				res.Failf("batch: response %s answers none of the batch's calls (or one of them twice)", raw)
				return
			}
			answered[hit] = true
			s.checkResponse(res, hit, raw)
			if len(res.Violations) > 0 {
				return
			}
		}
		return
	}
	for i, op := range s.Ops {
		ex := post(memio.Respell(s.request(i), s.Spell))
		if ex == nil || ex.Status() != 200 {
			st := -1
			if ex != nil {
				st = ex.Status()
			}
			res.Failf("op %d (%s): POST answered HTTP %d", i, op.Op, st)
			return
		}
		ct := ex.RespHeader().Get("Content-Type")
		body := ex.Written()
		var payloads []string
		switch {
		case strings.HasPrefix(ct, "text/event-stream"):
			if s.Transport != "stream-sse" {
				res.Failf("op %d: JSONResponse handler answered %s", i, ct)
				return
			}
			evs := memhttp.ParseSSE(body)
			for _, ev := range evs {
				if ev.Name != "" && ev.Name != "message" {
					continue
				}
				if e, err := readEnv([]byte(ev.Data)); ev.Data != "" && !(err == nil && e.HasMethod && !e.HasID) {
					payloads = append(payloads, ev.Data)
				}
			}
		case strings.HasPrefix(ct, "application/json"):
			if s.Transport != "stream-json" {
				// legal: JSONResponse is documented to force application/json, nothing forces text/event-stream
				res.Class("sse-handler-answered-json")
			}
			payloads = []string{string(body)}
		default:
			res.Failf("op %d (%s): response Content-Type %q", i, op.Op, ct)
			return
		}
		if len(payloads) != 1 {
			res.Failf("op %d (%s): the response body carries %d messages, want exactly the response: %q", i, op.Op, len(payloads), body)
			return
		}
		s.checkResponse(res, i, json.RawMessage(payloads[0]))
		if len(res.Violations) > 0 {
			return
		}
	}
}

var serveProp = vt.Register(&vt.Prop[ServeScript]{Property: "C19", Name: "serve", Gen: genServe, Run: runServe})

func TestC19_Serve(t *testing.T) { theT = t; serveProp.Check(t) }
