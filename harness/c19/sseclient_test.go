package c19

// SSE framing, reading side (prop "sse-client"): the SDK's streamable client
// POSTs a call to a handler of the harness, which answers with a body the
// harness formats itself (text/event-stream in several legal spellings, or
// application/json). Every message of the body must come out of
// Connection.Read unchanged and in order; the POSTed body must be the call.

import (
	"context"
	"fmt"
	"net/http"
	"strings"
	"sync"
	"testing"

	"github.com/modelcontextprotocol/go-sdk/mcp"
	"github.com/modelcontextprotocol/go-sdk/verif/memhttp"
	"github.com/modelcontextprotocol/go-sdk/verif/vt"
	"pgregory.net/rapid"
)

type SSEEvt struct {
	Wire    string `json:"wire"`              // the JSON-RPC message carried
	Name    string `json:"name,omitempty"`    // event field: "" or "message"
	ID      string `json:"id,omitempty"`      // id field
	Retry   string `json:"retry,omitempty"`   // retry field
	NoSpace bool   `json:"nospace,omitempty"` // "data:x" instead of "data: x"
	Splits  []int  `json:"splits,omitempty"`  // payload broken into several data lines at these structural positions
	CRLF    bool   `json:"crlf,omitempty"`
	Comment bool   `json:"comment,omitempty"` // a comment line before the event
	Decoy   bool   `json:"decoy,omitempty"`   // an event of another type before it (must be ignored)
}

type SSEClientScript struct {
	Call   MsgModel `json:"call"`
	Mode   string   `json:"mode"` // sse | json
	Events []SSEEvt `json:"events"`
	Chunks []int    `json:"chunks,omitempty"` // the body is written in pieces cut at these offsets
}

// splitPoints lists offsets in JSON text where a line break may be inserted
// without changing the value (outside strings, next to structural characters).
func splitPoints(text string) []int {
	var out []int
	inStr, esc := false, false
	for i := 0; i < len(text); i++ {
		c := text[i]
		switch {
		case esc:
			esc = false
		case inStr && c == '\\':
			esc = true
		case c == '"':
			inStr = !inStr
		case !inStr && (c == ',' || c == ':' || c == '{' || c == '['):
			out = append(out, i+1)
		}
	}
	return out
}

func (e SSEEvt) format() string {
	eol := "\n"
	if e.CRLF {
		eol = "\r\n"
	}
	var b strings.Builder
	if e.Comment {
		b.WriteString(": keep-alive" + eol)
	}
	if e.Decoy {
		b.WriteString("event: ping" + eol + "data: {\"jsonrpc\":\"2.0\",\"method\":\"decoy\"}" + eol + eol)
	}
	if e.Name != "" {
		b.WriteString("event: " + e.Name + eol)
	}
	if e.ID != "" {
		b.WriteString("id: " + e.ID + eol)
	}
	if e.Retry != "" {
		b.WriteString("retry: " + e.Retry + eol)
	}
	prefix := "data: "
	if e.NoSpace {
		prefix = "data:"
	}
	pts := splitPoints(e.Wire)
	cut := map[int]bool{}
	for _, s := range e.Splits {
		if len(pts) > 0 {
			cut[pts[s%len(pts)]] = true
		}
	}
	start := 0
	for i := 1; i < len(e.Wire); i++ {
		if cut[i] {
			b.WriteString(prefix + e.Wire[start:i] + eol)
			start = i
		}
	}
	b.WriteString(prefix + e.Wire[start:] + eol + eol)
	return b.String()
}

func genSSEClient(rt *rapid.T) SSEClientScript {
	// legacy: the same events on the hanging GET of the 2024-11-05 HTTP+SSE transport (SSEClientTransport)
	s := SSEClientScript{Mode: rapid.SampledFrom([]string{"sse", "sse", "sse", "json", "legacy", "legacy"}).Draw(rt, "mode")}
	used := map[string]bool{}
	s.Call = genMsgModel(rt, []string{"call"})
	if s.Call.Method == "" {
		s.Call.Method = "m" // the call is only the trigger here; empty methods are exercised by msg/wire
	}
	uniq(used, &s.Call)
	n := 0
	if s.Mode == "sse" || s.Mode == "legacy" {
		n = rapid.IntRange(0, 3).Draw(rt, "extra_events")
	}
	for i := 0; i <= n; i++ {
		var m MsgModel
		if i == n {
			m = genMsgModel(rt, []string{"result", "error"})
			m.ID = s.Call.ID
		} else {
			m = genMsgModel(rt, []string{"notif", "call"})
			uniq(used, &m)
		}
		e := SSEEvt{Wire: renderWire(rt, m)}
		if s.Mode == "sse" || s.Mode == "legacy" {
			e.Name = rapid.SampledFrom([]string{"", "message"}).Draw(rt, "evt_name")
			e.ID = rapid.SampledFrom([]string{"", "1", "e_7", "stream/9"}).Draw(rt, "evt_id")
			e.Retry = rapid.SampledFrom([]string{"", "", "100"}).Draw(rt, "evt_retry")
			e.NoSpace = rapid.Bool().Draw(rt, "evt_nospace")
			e.CRLF = rapid.IntRange(0, 3).Draw(rt, "evt_crlf") == 0
			e.Comment = rapid.IntRange(0, 3).Draw(rt, "evt_comment") == 0
			// (the old transport has only the endpoint and message events: no events of other types there)
			e.Decoy = s.Mode == "sse" && rapid.IntRange(0, 4).Draw(rt, "evt_decoy") == 0
			e.Splits = rapid.SliceOfN(rapid.IntRange(0, 1000), 0, 3).Draw(rt, "evt_splits")
		}
		s.Events = append(s.Events, e)
	}
	s.Chunks = rapid.SliceOfN(rapid.IntRange(0, 100000), 0, 4).Draw(rt, "chunks")
	return s
}

func runSSEClient(s SSEClientScript) (res vt.Result) {
	if p := vt.Bubble(theT, func() { runSSEClientInner(s, &res) }); p != "" {
		res.Failf("the client connection got stuck (a message in the response body never arrived): %s", p)
	}
	return res
}

func runSSEClientInner(s SSEClientScript, res *vt.Result) {
	var body strings.Builder
	ctype := "text/event-stream"
	if s.Mode == "json" {
		ctype = "application/json"
		body.WriteString(s.Events[0].Wire)
	} else {
		for _, e := range s.Events {
			body.WriteString(e.format())
		}
	}
	text := body.String()
	cuts := map[int]bool{}
	for _, c := range s.Chunks {
		cuts[c%(len(text)+1)] = true
	}
	var posted []byte
	handler := http.HandlerFunc(func(w http.ResponseWriter, r *http.Request) {
		if r.Method != http.MethodPost {
			w.WriteHeader(http.StatusMethodNotAllowed)
			return
		}
		buf := new(strings.Builder)
		b := make([]byte, 4096)
		for {
			n, err := r.Body.Read(b)
			buf.Write(b[:n])
			if err != nil {
				break
			}
		}
		posted = []byte(buf.String())
		w.Header().Set("Content-Type", ctype)
		w.WriteHeader(http.StatusOK)
		start := 0
		for i := 1; i < len(text); i++ {
			if cuts[i] {
				w.Write([]byte(text[start:i]))
				w.(http.Flusher).Flush()
				start = i
			}
		}
		w.Write([]byte(text[start:]))
	})
	// The same numbers also bound the size of the client's successive body reads, so that read
	// boundaries fall inside events (between a data line and its blank line, inside a line, ...).
	var readSizes []int
	for _, c := range s.Chunks {
		readSizes = append(readSizes, c%97+1)
	}
	tr := &memhttp.Transport{Handler: handler, Chunks: readSizes}
	ctx := context.Background()
	var conn mcp.Connection
	var err error
	if s.Mode == "legacy" {
		// GET: the endpoint event at once, the scripted events once the call has been POSTed; POST: 202.
		release := make(chan struct{})
		var once sync.Once
		tr.Handler = http.HandlerFunc(func(w http.ResponseWriter, r *http.Request) {
			if r.Method == http.MethodPost {
				buf := new(strings.Builder)
				b := make([]byte, 4096)
				for {
					n, err := r.Body.Read(b)
					buf.Write(b[:n])
					if err != nil {
						break
					}
				}
				posted = []byte(buf.String())
				w.WriteHeader(http.StatusAccepted)
				once.Do(func() { close(release) })
				return
			}
			w.Header().Set("Content-Type", "text/event-stream")
			w.WriteHeader(http.StatusOK)
			w.Write([]byte("event: endpoint\ndata: /messages?sessionid=s1\n\n"))
			w.(http.Flusher).Flush()
			select {
			case <-release:
			case <-r.Context().Done():
				return
			}
			start := 0
			for i := 1; i < len(text); i++ {
				if cuts[i] {
					w.Write([]byte(text[start:i]))
					w.(http.Flusher).Flush()
					start = i
				}
			}
			w.Write([]byte(text[start:]))
			w.(http.Flusher).Flush()
			<-r.Context().Done() // the stream stays open
		})
		conn, err = (&mcp.SSEClientTransport{Endpoint: "http://mcp.example/sse", HTTPClient: tr.Client()}).Connect(ctx)
	} else {
		conn, err = (&mcp.StreamableClientTransport{Endpoint: "http://mcp.example/mcp", HTTPClient: tr.Client(), DisableStandaloneSSE: true, MaxRetries: -1}).Connect(ctx)
	}
	if err != nil {
		res.Failf("harness: Connect: %v", err)
		return
	}
	defer conn.Close()
	res.Class("mode:"+s.Mode, fmt.Sprintf("events:%d", len(s.Events)))
	callEnv := s.Call.env()
	res.Desc = callEnv.String() + text
	if idClass(callEnv) == "id:beyond-2^53" {
		res.NonTrivial = true
	}
	if err := conn.Write(ctx, s.Call.build()); err != nil {
		res.Failf("Connection.Write of the call failed although the server answered 200 %s: %v\n body: %q", ctype, err, text)
		return
	}
	got, err := readEnv(posted)
	if err != nil {
		res.Failf("the POSTed body is not one JSON-RPC message (%v): %q", err, posted)
		return
	}
	if d := diffEnv(callEnv, got); d != "" {
		res.Failf("the POSTed body differs from the call given to Write: %s\n body: %s", d, posted)
		return
	}
	for i, e := range s.Events {
		want, err := readEnv([]byte(e.Wire))
		if err != nil || !validEnv(want) {
			res.Failf("harness: generated event payload is not a valid message (%v): %s", err, e.Wire)
			return
		}
		res.Class(idClass(want))
		if idClass(want) == "id:beyond-2^53" {
			res.NonTrivial = true
		}
		if len(e.Splits) > 0 {
			res.Class("multi-line-data")
		}
		msg, err := conn.Read(ctx)
		if err != nil {
			res.Failf("Connection.Read fails before message %d of the response body: %v\n body: %q", i, err, text)
			return
		}
		gotE, err := envOfMsg(msg)
		if err != nil {
			res.Failf("message %d read from the response body is unusable: %v\n body: %q", i, err, text)
			return
		}
		if d := diffEnv(want, gotE); d != "" {
			res.Failf("message %d read through the %s framing differs from the payload: %s\n payload: %s\n body: %q", i, s.Mode, d, e.Wire, text)
			return
		}
	}
}

var sseClientProp = vt.Register(&vt.Prop[SSEClientScript]{Property: "C19", Name: "sse-client", Gen: genSSEClient, Run: runSSEClient})

func TestC19_SSEClient(t *testing.T) { theT = t; sseClientProp.Check(t) }
