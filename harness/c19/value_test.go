package c19

// MCP protocol values: a struct generator for every Content kind and for the
// result/params types with custom JSON methods (prop "value"). Oracle:
//   - json.Marshal -> Unmarshal (encoding/json and the SDK's internal decoder)
//     yields an equal value (nil and empty slices/maps/[]byte are equated: the
//     SDK's marshallers document that they emit [] / "" / {} for nil);
//   - the marshalled JSON, read independently, carries the model's data: the
//     required members ("content" arrays, "text", "data", list arrays) are
//     present, non-null (for a non-nil Go slice) and hold the model's values.

import (
	"encoding/base64"
	"encoding/json"
	"fmt"
	"reflect"
	"strings"
	"testing"

	internaljson "github.com/modelcontextprotocol/go-sdk/internal/json"
	"github.com/modelcontextprotocol/go-sdk/mcp"
	"github.com/modelcontextprotocol/go-sdk/verif/vt"
	"pgregory.net/rapid"
)

type AnnModel struct {
	Audience     []string `json:"audience,omitempty"`
	LastModified string   `json:"last_modified,omitempty"`
	Priority     float64  `json:"priority,omitempty"`
}

type ResModel struct {
	URI     string `json:"uri,omitempty"`
	MIME    string `json:"mime,omitempty"`
	Text    string `json:"text,omitempty"`
	Blob    []byte `json:"blob,omitempty"`
	HasBlob bool   `json:"has_blob,omitempty"` // Blob is a non-nil slice
	Meta    string `json:"meta,omitempty"`
}

// ContentModel is one content block as plain data.
type ContentModel struct {
	Kind       string         `json:"kind"` // text image audio resource_link resource tool_use tool_result
	Text       string         `json:"text,omitempty"`
	Data       []byte         `json:"data,omitempty"`
	MIME       string         `json:"mime,omitempty"`
	URI        string         `json:"uri,omitempty"`
	Name       string         `json:"name,omitempty"`
	Title      string         `json:"title,omitempty"`
	Desc       string         `json:"desc,omitempty"`
	Size       *int64         `json:"size,omitempty"`
	Meta       string         `json:"meta,omitempty"` // JSON object text; "" = nil Meta
	Ann        *AnnModel      `json:"ann,omitempty"`
	Res        *ResModel      `json:"res,omitempty"`
	ToolID     string         `json:"tool_id,omitempty"`
	Input      string         `json:"input,omitempty"` // JSON object text; "" = nil map
	Nested     []ContentModel `json:"nested,omitempty"`
	Structured string         `json:"structured,omitempty"` // JSON text; "" = nil
	IsError    bool           `json:"is_error,omitempty"`
}

var (
	basicKinds    = []string{"text", "image", "audio", "resource_link", "resource"}
	samplingKinds = []string{"text", "image", "audio", "tool_use", "tool_result"}
	assistKinds   = []string{"text", "image", "audio", "tool_use"}
	plainKinds    = []string{"text", "image", "audio"}
	mimes         = []string{"", "text/plain", "image/png", "audio/wav", "application/octet-stream; x=\"y\""}
)

func genMeta(rt *rapid.T, label string) string {
	if rapid.IntRange(0, 2).Draw(rt, label+"_has") > 0 {
		return ""
	}
	g := &jgen{rt: rt, floatSafe: true, ws: rapid.IntRange(0, 1).Draw(rt, label+"_ws")}
	return g.object(1)
}

func genBytes(rt *rapid.T, label string) []byte {
	switch rapid.IntRange(0, 3).Draw(rt, label+"_k") {
	case 0:
		return nil
	case 1:
		return []byte{}
	case 2:
		return []byte(genString(rt, label+"_s"))
	}
	return rapid.SliceOfN(rapid.Byte(), 1, 9).Draw(rt, label+"_b")
}

func genAnn(rt *rapid.T, label string) *AnnModel {
	if rapid.IntRange(0, 2).Draw(rt, label+"_has") > 0 {
		return nil
	}
	a := &AnnModel{Priority: rapid.SampledFrom([]float64{0, 0.25, 0.5, 1, 0.1}).Draw(rt, label+"_prio")}
	a.Audience = rapid.SampledFrom([][]string{nil, {"user"}, {"assistant"}, {"user", "assistant"}}).Draw(rt, label+"_aud")
	a.LastModified = rapid.SampledFrom([]string{"", "2025-01-12T15:00:58Z", "not a date"}).Draw(rt, label+"_lm")
	return a
}

func genRes(rt *rapid.T, label string) *ResModel {
	r := &ResModel{URI: genString(rt, label+"_uri"), MIME: rapid.SampledFrom(mimes).Draw(rt, label+"_mime"), Meta: genMeta(rt, label+"_meta")}
	if rapid.Bool().Draw(rt, label+"_text") {
		r.Text = genString(rt, label+"_t")
	} else {
		r.Blob = genBytes(rt, label+"_blob")
		r.HasBlob = r.Blob != nil
	}
	return r
}

func genContent(rt *rapid.T, label string, kinds []string, nested bool) ContentModel {
	c := ContentModel{Kind: rapid.SampledFrom(kinds).Draw(rt, label+"_kind"), Meta: genMeta(rt, label+"_meta")}
	if c.Kind != "tool_use" && c.Kind != "tool_result" {
		c.Ann = genAnn(rt, label+"_ann")
	}
	switch c.Kind {
	case "text":
		c.Text = genString(rt, label+"_text")
		if nested && c.Text == "" && vt.Open("F16") {
			vt.Excluded("F16")
			c.Text = "x"
		}
	case "image", "audio":
		c.Data = genBytes(rt, label+"_data")
		c.MIME = rapid.SampledFrom(mimes).Draw(rt, label+"_mime")
		if nested && len(c.Data) == 0 && vt.Open("F16") {
			vt.Excluded("F16")
			c.Data = []byte{1}
		}
	case "resource_link":
		c.URI, c.Name = genString(rt, label+"_uri"), genString(rt, label+"_name")
		c.Title, c.Desc = genString(rt, label+"_title"), genString(rt, label+"_desc")
		c.MIME = rapid.SampledFrom(mimes).Draw(rt, label+"_mime")
		if rapid.Bool().Draw(rt, label+"_has_size") {
			v := rapid.SampledFrom(boundaryInts).Draw(rt, label+"_size")
			c.Size = &v
		}
	case "resource":
		c.Res = genRes(rt, label+"_res")
	case "tool_use":
		c.ToolID, c.Name = genString(rt, label+"_tid"), genString(rt, label+"_name")
		if rapid.Bool().Draw(rt, label+"_has_input") {
			g := &jgen{rt: rt, floatSafe: true}
			c.Input = g.object(2)
		}
	case "tool_result":
		c.ToolID = genString(rt, label+"_tid")
		c.IsError = rapid.Bool().Draw(rt, label+"_iserr")
		if rapid.IntRange(0, 2).Draw(rt, label+"_has_sc") == 0 {
			g := &jgen{rt: rt, floatSafe: true, noNull: true}
			c.Structured = g.value(2)
		}
		n := rapid.IntRange(0, 3).Draw(rt, label+"_nested_n")
		for i := 0; i < n; i++ {
			c.Nested = append(c.Nested, genContent(rt, fmt.Sprintf("%s_n%d", label, i), basicKinds, true))
		}
	}
	return c
}

func jsonObj(text string) map[string]any {
	if text == "" {
		return nil
	}
	var m map[string]any
	if err := json.Unmarshal([]byte(text), &m); err != nil {
		panic("harness: bad object text: " + err.Error())
	}
	return m
}

func jsonAny(text string) any {
	if text == "" {
		return nil
	}
	var v any
	if err := json.Unmarshal([]byte(text), &v); err != nil {
		panic("harness: bad JSON text: " + err.Error())
	}
	return v
}

func (a *AnnModel) sdk() *mcp.Annotations {
	if a == nil {
		return nil
	}
	out := &mcp.Annotations{LastModified: a.LastModified, Priority: a.Priority}
	for _, r := range a.Audience {
		out.Audience = append(out.Audience, mcp.Role(r))
	}
	return out
}

func (r *ResModel) sdk() *mcp.ResourceContents {
	out := &mcp.ResourceContents{URI: r.URI, MIMEType: r.MIME, Text: r.Text, Meta: mcp.Meta(jsonObj(r.Meta))}
	if r.HasBlob {
		out.Blob = append([]byte{}, r.Blob...)
	}
	return out
}

func (c ContentModel) sdk() mcp.Content {
	meta := mcp.Meta(jsonObj(c.Meta))
	switch c.Kind {
	case "text":
		return &mcp.TextContent{Text: c.Text, Meta: meta, Annotations: c.Ann.sdk()}
	case "image":
		return &mcp.ImageContent{Data: c.Data, MIMEType: c.MIME, Meta: meta, Annotations: c.Ann.sdk()}
	case "audio":
		return &mcp.AudioContent{Data: c.Data, MIMEType: c.MIME, Meta: meta, Annotations: c.Ann.sdk()}
	case "resource_link":
		return &mcp.ResourceLink{URI: c.URI, Name: c.Name, Title: c.Title, Description: c.Desc, MIMEType: c.MIME, Size: c.Size, Meta: meta, Annotations: c.Ann.sdk()}
	case "resource":
		return &mcp.EmbeddedResource{Resource: c.Res.sdk(), Meta: meta, Annotations: c.Ann.sdk()}
	case "tool_use":
		return &mcp.ToolUseContent{ID: c.ToolID, Name: c.Name, Input: jsonObj(c.Input), Meta: meta}
	default:
		t := &mcp.ToolResultContent{ToolUseID: c.ToolID, StructuredContent: jsonAny(c.Structured), IsError: c.IsError, Meta: meta}
		for _, n := range c.Nested {
			t.Content = append(t.Content, n.sdk())
		}
		return t
	}
}

func sdkContents(cs []ContentModel, nilList bool) []mcp.Content {
	if nilList {
		return nil
	}
	out := []mcp.Content{}
	for _, c := range cs {
		out = append(out, c.sdk())
	}
	return out
}

// depth is 1 for a plain block, 2 if it carries nested content or an embedded resource.
func (c ContentModel) depth() int {
	if len(c.Nested) > 0 || c.Res != nil {
		return 2
	}
	return 1
}

// ---- independent reading of marshalled content ------------------------------------

type jsonChecker struct {
	res  *vt.Result
	what string
	// metaSuperset: the JSON is a message the SDK sent; it may carry _meta keys of its own next to the
	// handler's (it stamps ids into _meta elsewhere), the handler's must all be there.
	metaSuperset bool
}

func (k *jsonChecker) failf(format string, a ...any) {
	k.res.Failf("%s: %s", k.what, fmt.Sprintf(format, a...))
}

// str checks an optional string member: equal to want if want is non-empty, else absent or "".
func (k *jsonChecker) str(path string, m map[string]json.RawMessage, key, want string) {
	raw, ok := m[key]
	if !ok {
		if want != "" {
			k.failf("%s: member %q (%q) is missing", path, key, want)
		}
		return
	}
	var got string
	if err := json.Unmarshal(raw, &got); err != nil || string(raw) == "null" {
		k.failf("%s: member %q is %s, want the string %q", path, key, raw, want)
		return
	}
	if got != want {
		k.failf("%s: member %q is %q, want %q", path, key, got, want)
	}
}

// required checks that a required member is present and not null and returns it.
func (k *jsonChecker) required(path string, m map[string]json.RawMessage, key string) (json.RawMessage, bool) {
	raw, ok := m[key]
	if !ok {
		k.failf("%s: required member %q is missing", path, key)
		return nil, false
	}
	if strings.TrimSpace(string(raw)) == "null" {
		k.failf("%s: required member %q is null", path, key)
		return nil, false
	}
	return raw, true
}

func (k *jsonChecker) reqString(path string, m map[string]json.RawMessage, key, want string) {
	raw, ok := k.required(path, m, key)
	if !ok {
		return
	}
	var got string
	if err := json.Unmarshal(raw, &got); err != nil {
		k.failf("%s: required member %q is %s, not a string", path, key, raw)
		return
	}
	if got != want {
		k.failf("%s: required member %q is %q, want %q", path, key, got, want)
	}
}

func (k *jsonChecker) bytes(path string, raw json.RawMessage, key string, want []byte) {
	var s string
	if err := json.Unmarshal(raw, &s); err != nil {
		k.failf("%s: member %q is %s, not a base64 string", path, key, raw)
		return
	}
	got, err := base64.StdEncoding.DecodeString(s)
	if err != nil {
		k.failf("%s: member %q is not base64: %v", path, key, err)
		return
	}
	if string(got) != string(want) {
		k.failf("%s: member %q decodes to %v, want %v", path, key, got, want)
	}
}

// jsonIs checks an optional member against JSON text (float-safe numbers, so decoded values compare).
func (k *jsonChecker) jsonIs(path string, m map[string]json.RawMessage, key, wantText string, emptyOK bool) {
	raw, ok := m[key]
	if wantText == "" || (emptyOK && reflect.DeepEqual(jsonAny(wantText), map[string]any{})) {
		if ok && !emptyOK {
			k.failf("%s: unexpected member %q: %s", path, key, raw)
		}
		if ok && emptyOK && string(raw) != "{}" && string(raw) != "null" && !(key == "_meta" && k.metaSuperset) {
			k.failf("%s: member %q is %s, want absent or empty", path, key, raw)
		}
		return
	}
	if !ok {
		k.failf("%s: member %q (%s) is missing", path, key, wantText)
		return
	}
	var got any
	if err := json.Unmarshal(raw, &got); err != nil || !reflect.DeepEqual(got, jsonAny(wantText)) {
		if gm, ok := got.(map[string]any); ok && err == nil && key == "_meta" && k.metaSuperset {
			missing := false
			for mk, mv := range jsonObj(wantText) {
				if gv, ok := gm[mk]; !ok || !reflect.DeepEqual(gv, mv) {
					missing = true
				}
			}
			if !missing {
				return
			}
		}
		k.failf("%s: member %q is %s, want %s", path, key, raw, wantText)
	}
}

func (k *jsonChecker) ann(path string, m map[string]json.RawMessage, a *AnnModel) {
	raw, ok := m["annotations"]
	if a == nil {
		if ok && string(raw) != "null" {
			k.failf("%s: unexpected annotations %s", path, raw)
		}
		return
	}
	if !ok {
		if len(a.Audience) > 0 || a.LastModified != "" || a.Priority != 0 {
			k.failf("%s: annotations are missing", path)
		}
		return
	}
	var got struct {
		Audience     []string `json:"audience"`
		LastModified string   `json:"lastModified"`
		Priority     float64  `json:"priority"`
	}
	if err := json.Unmarshal(raw, &got); err != nil {
		k.failf("%s: annotations unreadable: %v", path, err)
		return
	}
	if strings.Join(got.Audience, ",") != strings.Join(a.Audience, ",") || got.LastModified != a.LastModified || got.Priority != a.Priority {
		k.failf("%s: annotations are %s, want %+v", path, raw, *a)
	}
}

func (k *jsonChecker) resource(path string, raw json.RawMessage, r *ResModel) {
	m, err := members(raw)
	if err != nil {
		k.failf("%s: resource contents are not an object: %s", path, raw)
		return
	}
	k.str(path, m, "uri", r.URI)
	k.str(path, m, "mimeType", r.MIME)
	k.str(path, m, "text", r.Text)
	k.jsonIs(path, m, "_meta", r.Meta, true)
	if b, ok := m["blob"]; ok {
		k.bytes(path, b, "blob", r.Blob)
	} else if len(r.Blob) > 0 {
		k.failf("%s: blob (%d bytes) is missing", path, len(r.Blob))
	}
}

// content checks one marshalled content block against its model.
func (k *jsonChecker) content(path string, raw json.RawMessage, c ContentModel) {
	m, err := members(raw)
	if err != nil {
		k.failf("%s: content block is not a JSON object (%v): %s", path, err, raw)
		return
	}
	k.reqString(path, m, "type", c.Kind)
	k.jsonIs(path, m, "_meta", c.Meta, true)
	k.ann(path, m, c.Ann)
	switch c.Kind {
	case "text":
		k.reqString(path, m, "text", c.Text)
	case "image", "audio":
		if d, ok := k.required(path, m, "data"); ok {
			k.bytes(path, d, "data", c.Data)
		}
		k.str(path, m, "mimeType", c.MIME)
	case "resource_link":
		k.str(path, m, "uri", c.URI)
		k.str(path, m, "name", c.Name)
		k.str(path, m, "title", c.Title)
		k.str(path, m, "description", c.Desc)
		k.str(path, m, "mimeType", c.MIME)
		if c.Size != nil {
			if got, ok := m["size"]; !ok || string(got) != fmt.Sprint(*c.Size) {
				k.failf("%s: size is %s, want %d", path, got, *c.Size)
			}
		}
	case "resource":
		if r, ok := k.required(path, m, "resource"); ok {
			k.resource(path+".resource", r, c.Res)
		}
	case "tool_use":
		k.str(path, m, "id", c.ToolID)
		k.str(path, m, "name", c.Name)
		if in, ok := k.required(path, m, "input"); ok {
			want := c.Input
			if want == "" {
				want = "{}"
			}
			var got any
			if err := json.Unmarshal(in, &got); err != nil || !reflect.DeepEqual(got, jsonAny(want)) {
				k.failf("%s: input is %s, want %s", path, in, want)
			}
		}
	case "tool_result":
		k.str(path, m, "toolUseId", c.ToolID)
		k.jsonIs(path, m, "structuredContent", c.Structured, false)
		if b, ok := m["isError"]; (ok && string(b) == "true") != c.IsError {
			k.failf("%s: isError is %s, want %v", path, b, c.IsError)
		}
		if arr, ok := k.required(path, m, "content"); ok {
			k.contents(path+".content", arr, c.Nested)
		}
	}
}

// contents checks a marshalled array of content blocks.
func (k *jsonChecker) contents(path string, raw json.RawMessage, cs []ContentModel) {
	var arr []json.RawMessage
	if err := json.Unmarshal(raw, &arr); err != nil || arr == nil {
		k.failf("%s: want a JSON array of %d content blocks, got %s", path, len(cs), raw)
		return
	}
	if len(arr) != len(cs) {
		k.failf("%s: %d content blocks, want %d: %s", path, len(arr), len(cs), raw)
		return
	}
	for i := range arr {
		k.content(fmt.Sprintf("%s[%d]", path, i), arr[i], cs[i])
	}
}

// list checks a required array member; it may be null only if nilOK (a nil Go slice marshalled directly).
func (k *jsonChecker) list(path string, m map[string]json.RawMessage, key string, n int, nilOK bool) []json.RawMessage {
	raw, ok := m[key]
	if !ok {
		k.failf("%s: required member %q is missing", path, key)
		return nil
	}
	if strings.TrimSpace(string(raw)) == "null" {
		if !nilOK {
			k.failf("%s: required member %q is null", path, key)
		}
		return nil
	}
	var arr []json.RawMessage
	if err := json.Unmarshal(raw, &arr); err != nil {
		k.failf("%s: required member %q is not an array: %s", path, key, raw)
		return nil
	}
	if len(arr) != n {
		k.failf("%s: member %q has %d elements, want %d: %s", path, key, len(arr), n, raw)
		return nil
	}
	return arr
}

// ---- equality with nil == empty ----------------------------------------------------

// deepEq compares two values like reflect.DeepEqual except that nil and empty
// slices/maps are equal. It returns the path of the first difference.
func deepEq(a, b reflect.Value, path string) string {
	if a.IsValid() != b.IsValid() {
		return path + ": one side is absent"
	}
	if !a.IsValid() {
		return ""
	}
	if a.Type() != b.Type() {
		return fmt.Sprintf("%s: type %s vs %s", path, a.Type(), b.Type())
	}
	switch a.Kind() {
	case reflect.Pointer, reflect.Interface:
		if a.IsNil() || b.IsNil() {
			if a.IsNil() != b.IsNil() {
				// a pointer to an all-zero struct carries no more than a nil pointer (it may be left out on the wire)
				if nn := map[bool]reflect.Value{true: b, false: a}[a.IsNil()]; a.Kind() == reflect.Pointer && nn.Elem().Kind() == reflect.Struct && nn.Elem().IsZero() {
					return ""
				}
				// an interface holding an empty map/slice equals a nil interface? no: keep strict
				return fmt.Sprintf("%s: nil vs non-nil", path)
			}
			return ""
		}
		if a.Kind() == reflect.Interface && a.Elem().Type() != b.Elem().Type() && a.CanInterface() && b.CanInterface() {
			// free-form JSON held in an `any`: a decoder may choose another Go representation (json.Number for
			// float64, ...); compare what the two hold as JSON values
			ja, ea := json.Marshal(a.Interface())
			jb, eb := json.Marshal(b.Interface())
			if ea == nil && eb == nil {
				va, _ := parseAny(ja)
				vb, _ := parseAny(jb)
				if valEq(va, vb) {
					return ""
				}
			}
		}
		return deepEq(a.Elem(), b.Elem(), path)
	case reflect.Struct:
		for i := 0; i < a.NumField(); i++ {
			if !a.Type().Field(i).IsExported() {
				continue // private bookkeeping (caches, raw bytes kept by a decoder) is not part of the value
			}
			if d := deepEq(a.Field(i), b.Field(i), path+"."+a.Type().Field(i).Name); d != "" {
				return d
			}
		}
		return ""
	case reflect.Slice, reflect.Array:
		if a.Len() != b.Len() {
			return fmt.Sprintf("%s: length %d vs %d", path, a.Len(), b.Len())
		}
		for i := 0; i < a.Len(); i++ {
			if d := deepEq(a.Index(i), b.Index(i), fmt.Sprintf("%s[%d]", path, i)); d != "" {
				return d
			}
		}
		return ""
	case reflect.Map:
		if a.Len() != b.Len() {
			return fmt.Sprintf("%s: map size %d vs %d", path, a.Len(), b.Len())
		}
		for _, key := range a.MapKeys() {
			bv := b.MapIndex(key)
			if !bv.IsValid() {
				return fmt.Sprintf("%s: key %v missing", path, key)
			}
			if d := deepEq(a.MapIndex(key), bv, fmt.Sprintf("%s[%v]", path, key)); d != "" {
				return d
			}
		}
		return ""
	case reflect.String:
		if a.String() != b.String() {
			return fmt.Sprintf("%s: %q vs %q", path, a.String(), b.String())
		}
	case reflect.Bool:
		if a.Bool() != b.Bool() {
			return fmt.Sprintf("%s: %v vs %v", path, a.Bool(), b.Bool())
		}
	case reflect.Int, reflect.Int8, reflect.Int16, reflect.Int32, reflect.Int64:
		if a.Int() != b.Int() {
			return fmt.Sprintf("%s: %d vs %d", path, a.Int(), b.Int())
		}
	case reflect.Uint, reflect.Uint8, reflect.Uint16, reflect.Uint32, reflect.Uint64:
		if a.Uint() != b.Uint() {
			return fmt.Sprintf("%s: %d vs %d", path, a.Uint(), b.Uint())
		}
	case reflect.Float32, reflect.Float64:
		if a.Float() != b.Float() {
			return fmt.Sprintf("%s: %v vs %v", path, a.Float(), b.Float())
		}
	default:
		return fmt.Sprintf("%s: harness cannot compare kind %s", path, a.Kind())
	}
	return ""
}

// ---- the value script ----------------------------------------------------------------

type ItemModel struct {
	Name  string `json:"name,omitempty"`
	Title string `json:"title,omitempty"`
	Desc  string `json:"desc,omitempty"`
	URI   string `json:"uri,omitempty"`
	MIME  string `json:"mime,omitempty"`
	Meta  string `json:"meta,omitempty"`
}

type ValScript struct {
	Kind       string         `json:"kind"`
	Meta       string         `json:"meta,omitempty"`
	NilList    bool           `json:"nil_list,omitempty"` // the list/content slice is a nil slice
	Contents   []ContentModel `json:"contents,omitempty"`
	Roles      []string       `json:"roles,omitempty"` // one per content where messages carry roles
	PerMessage []int          `json:"per_message,omitempty"`
	Items      []ItemModel    `json:"items,omitempty"`
	Resources  []ResModel     `json:"resources,omitempty"`
	Structured string         `json:"structured,omitempty"`
	IsError    bool           `json:"is_error,omitempty"`
	Text       string         `json:"text,omitempty"` // description / model / system prompt
	Stop       string         `json:"stop,omitempty"`
	Cursor     string         `json:"cursor,omitempty"`
	MaxTokens  int64          `json:"max_tokens,omitempty"`
	// Ask (CallToolResult, GetPromptResult, ReadResourceResult): the result asks the client for input instead of
	// carrying content: "empty" (a non-nil map without entries: "busy, try again"), "roots", "two" (an
	// elicitation and a roots request); State is the request state it carries.
	Ask   string `json:"ask,omitempty"`
	State string `json:"state,omitempty"`
}

var valueKinds = []string{
	"CallToolResult", "CallToolResult", "GetPromptResult", "ReadResourceResult",
	"CreateMessageParams", "CreateMessageWithToolsParams", "CreateMessageWithToolsParams", "CreateMessageResult", "CreateMessageWithToolsResult",
	"ListToolsResult", "ListPromptsResult", "ListResourcesResult", "ListResourceTemplatesResult", "ListRootsResult",
}

func genItems(rt *rapid.T, n int) []ItemModel {
	var out []ItemModel
	for i := 0; i < n; i++ {
		l := fmt.Sprintf("item%d", i)
		out = append(out, ItemModel{Name: genString(rt, l+"_name"), Title: genString(rt, l+"_title"), Desc: genString(rt, l+"_desc"),
			URI: genString(rt, l+"_uri"), MIME: rapid.SampledFrom(mimes).Draw(rt, l+"_mime"), Meta: genMeta(rt, l+"_meta")})
	}
	return out
}

func genVal(rt *rapid.T) ValScript {
	kind := rapid.SampledFrom(valueKinds).Draw(rt, "kind")
	if (kind == "CallToolResult" || kind == "GetPromptResult" || kind == "ReadResourceResult") && rapid.IntRange(0, 3).Draw(rt, "asks") == 0 {
		// a result that asks for input carries no content (only the value round trip uses these: a served
		// handler returning one sets the multi-round-trip machinery in motion, which is C16's arrangement)
		s := ValScript{Kind: kind, Meta: genMeta(rt, "meta"), NilList: rapid.Bool().Draw(rt, "nil_list")}
		s.Ask = rapid.SampledFrom([]string{"empty", "empty", "roots", "two"}).Draw(rt, "ask")
		s.State = rapid.SampledFrom([]string{"", "st-1", "\u00e9\"x"}).Draw(rt, "state")
		if kind == "GetPromptResult" {
			s.Text = genString(rt, "description")
		}
		return s
	}
	return genValOf(rt, kind)
}

func genValOf(rt *rapid.T, kind string) ValScript {
	s := ValScript{Kind: kind, Meta: genMeta(rt, "meta")}
	n := rapid.IntRange(0, 3).Draw(rt, "n")

	nilOK := true
	kinds := basicKinds
	switch s.Kind {
	case "CallToolResult":
		s.IsError = rapid.Bool().Draw(rt, "is_error")
		if rapid.IntRange(0, 2).Draw(rt, "has_sc") == 0 {
			g := &jgen{rt: rt, floatSafe: true, noNull: true}
			s.Structured = g.value(2)
		}
	case "GetPromptResult":
		s.Text = genString(rt, "description")
	case "ReadResourceResult":
		for i := 0; i < n; i++ {
			s.Resources = append(s.Resources, *genRes(rt, fmt.Sprintf("res%d", i)))
		}
	case "CreateMessageParams":
		kinds = samplingKinds
		s.Text = genString(rt, "system")
		s.MaxTokens = rapid.SampledFrom(boundaryInts).Draw(rt, "max_tokens")
	case "CreateMessageWithToolsParams":
		kinds = samplingKinds
		s.MaxTokens = rapid.SampledFrom(boundaryInts).Draw(rt, "max_tokens")
		s.Items = genItems(rt, rapid.IntRange(0, 2).Draw(rt, "tools_n"))
		// n messages, each with 0..3 content blocks
		for i := 0; i < n; i++ {
			s.PerMessage = append(s.PerMessage, rapid.IntRange(0, 3).Draw(rt, "per_message"))
		}
		n = 0
		for _, k := range s.PerMessage {
			n += k
		}
	case "CreateMessageResult":
		kinds, n, nilOK = plainKinds, 1, false
		s.Text, s.Stop = genString(rt, "model"), rapid.SampledFrom([]string{"", "endTurn", "maxTokens"}).Draw(rt, "stop")
	case "CreateMessageWithToolsResult":
		kinds, nilOK = assistKinds, false
		s.Text, s.Stop = genString(rt, "model"), rapid.SampledFrom([]string{"", "endTurn", "toolUse"}).Draw(rt, "stop")
	default: // lists
		s.Items = genItems(rt, n)
		if s.Kind != "ListRootsResult" {
			s.Cursor = genString(rt, "cursor")
		}
		n = 0
	}
	if s.Kind == "ReadResourceResult" {
		n = 0
	}
	for i := 0; i < n; i++ {
		s.Contents = append(s.Contents, genContent(rt, fmt.Sprintf("c%d", i), kinds, false))
		s.Roles = append(s.Roles, rapid.SampledFrom([]string{"user", "assistant"}).Draw(rt, "role"))
	}
	if nilOK && len(s.Contents) == 0 && len(s.Items) == 0 && len(s.Resources) == 0 && len(s.PerMessage) == 0 {
		s.NilList = rapid.Bool().Draw(rt, "nil_list")
	}
	return s
}

func (it ItemModel) meta() mcp.Meta { return mcp.Meta(jsonObj(it.Meta)) }

// build returns the SDK value and a fresh zero value of the same type to unmarshal into.
// askMap is the input request map of a result that asks for input (nil when it does not).
func (s ValScript) askMap() mcp.InputRequestMap {
	switch s.Ask {
	case "empty":
		return mcp.InputRequestMap{}
	case "roots":
		return mcp.InputRequestMap{"r": &mcp.ListRootsParams{}}
	case "two":
		return mcp.InputRequestMap{"e": &mcp.ElicitParams{Mode: "form", Message: "m", RequestedSchema: map[string]any{"type": "object"}}, "r": &mcp.ListRootsParams{}}
	}
	return nil
}

func (s ValScript) build() (v any, zero func() any) {
	v, zero = s.build0()
	if s.Ask != "" {
		switch r := v.(type) {
		case *mcp.CallToolResult:
			r.InputRequests, r.RequestState = s.askMap(), s.State
		case *mcp.GetPromptResult:
			r.InputRequests, r.RequestState = s.askMap(), s.State
		case *mcp.ReadResourceResult:
			r.InputRequests, r.RequestState = s.askMap(), s.State
		}
	}
	return v, zero
}

func (s ValScript) build0() (v any, zero func() any) {
	meta := mcp.Meta(jsonObj(s.Meta))
	switch s.Kind {
	case "CallToolResult":
		return &mcp.CallToolResult{Meta: meta, Content: sdkContents(s.Contents, s.NilList), StructuredContent: jsonAny(s.Structured), IsError: s.IsError},
			func() any { return new(mcp.CallToolResult) }
	case "GetPromptResult":
		r := &mcp.GetPromptResult{Meta: meta, Description: s.Text}
		if !s.NilList {
			r.Messages = []*mcp.PromptMessage{}
		}
		for i, c := range s.Contents {
			r.Messages = append(r.Messages, &mcp.PromptMessage{Role: mcp.Role(s.Roles[i]), Content: c.sdk()})
		}
		return r, func() any { return new(mcp.GetPromptResult) }
	case "ReadResourceResult":
		r := &mcp.ReadResourceResult{Meta: meta}
		if !s.NilList {
			r.Contents = []*mcp.ResourceContents{}
		}
		for i := range s.Resources {
			r.Contents = append(r.Contents, s.Resources[i].sdk())
		}
		return r, func() any { return new(mcp.ReadResourceResult) }
	case "CreateMessageParams":
		p := &mcp.CreateMessageParams{Meta: meta, SystemPrompt: s.Text, MaxTokens: s.MaxTokens}
		if !s.NilList {
			p.Messages = []*mcp.SamplingMessage{}
		}
		for i, c := range s.Contents {
			p.Messages = append(p.Messages, &mcp.SamplingMessage{Role: mcp.Role(s.Roles[i]), Content: c.sdk()})
		}
		return p, func() any { return new(mcp.CreateMessageParams) }
	case "CreateMessageWithToolsParams":
		p := &mcp.CreateMessageWithToolsParams{Meta: meta, MaxTokens: s.MaxTokens}
		if !s.NilList {
			p.Messages = []*mcp.SamplingMessageV2{}
		}
		at := 0
		for _, k := range s.PerMessage {
			p.Messages = append(p.Messages, &mcp.SamplingMessageV2{Role: "user", Content: sdkContents(s.Contents[at:at+k], false)})
			at += k
		}
		for _, it := range s.Items {
			p.Tools = append(p.Tools, &mcp.Tool{Name: it.Name, Title: it.Title, Description: it.Desc, Meta: it.meta(), InputSchema: map[string]any{"type": "object"}})
		}
		return p, func() any { return new(mcp.CreateMessageWithToolsParams) }
	case "CreateMessageResult":
		return &mcp.CreateMessageResult{Meta: meta, Content: s.Contents[0].sdk(), Model: s.Text, Role: mcp.Role(s.Roles[0]), StopReason: s.Stop},
			func() any { return new(mcp.CreateMessageResult) }
	case "CreateMessageWithToolsResult":
		return &mcp.CreateMessageWithToolsResult{Meta: meta, Content: sdkContents(s.Contents, false), Model: s.Text, Role: "assistant", StopReason: s.Stop},
			func() any { return new(mcp.CreateMessageWithToolsResult) }
	case "ListToolsResult":
		r := &mcp.ListToolsResult{Meta: meta, NextCursor: s.Cursor}
		if !s.NilList {
			r.Tools = []*mcp.Tool{}
		}
		for _, it := range s.Items {
			r.Tools = append(r.Tools, &mcp.Tool{Name: it.Name, Title: it.Title, Description: it.Desc, Meta: it.meta(), InputSchema: map[string]any{"type": "object"}})
		}
		return r, func() any { return new(mcp.ListToolsResult) }
	case "ListPromptsResult":
		r := &mcp.ListPromptsResult{Meta: meta, NextCursor: s.Cursor}
		if !s.NilList {
			r.Prompts = []*mcp.Prompt{}
		}
		for _, it := range s.Items {
			r.Prompts = append(r.Prompts, &mcp.Prompt{Name: it.Name, Title: it.Title, Description: it.Desc, Meta: it.meta()})
		}
		return r, func() any { return new(mcp.ListPromptsResult) }
	case "ListResourcesResult":
		r := &mcp.ListResourcesResult{Meta: meta, NextCursor: s.Cursor}
		if !s.NilList {
			r.Resources = []*mcp.Resource{}
		}
		for _, it := range s.Items {
			r.Resources = append(r.Resources, &mcp.Resource{Name: it.Name, Title: it.Title, Description: it.Desc, URI: it.URI, MIMEType: it.MIME, Meta: it.meta()})
		}
		return r, func() any { return new(mcp.ListResourcesResult) }
	case "ListResourceTemplatesResult":
		r := &mcp.ListResourceTemplatesResult{Meta: meta, NextCursor: s.Cursor}
		if !s.NilList {
			r.ResourceTemplates = []*mcp.ResourceTemplate{}
		}
		for _, it := range s.Items {
			r.ResourceTemplates = append(r.ResourceTemplates, &mcp.ResourceTemplate{Name: it.Name, Title: it.Title, Description: it.Desc, URITemplate: it.URI, MIMEType: it.MIME, Meta: it.meta()})
		}
		return r, func() any { return new(mcp.ListResourceTemplatesResult) }
	default:
		r := &mcp.ListRootsResult{Meta: meta}
		if !s.NilList {
			r.Roots = []*mcp.Root{}
		}
		for _, it := range s.Items {
			r.Roots = append(r.Roots, &mcp.Root{Name: it.Name, URI: it.URI, Meta: it.meta()})
		}
		return r, func() any { return new(mcp.ListRootsResult) }
	}
}

var listKey = map[string]string{
	"ListToolsResult": "tools", "ListPromptsResult": "prompts", "ListResourcesResult": "resources",
	"ListResourceTemplatesResult": "resourceTemplates", "ListRootsResult": "roots",
}

// checkJSON reads the marshalled value independently and compares it with the model.
// nilOK: a required array may be null because the Go slice was nil and the value was marshalled directly.
func (s ValScript) checkJSON(k *jsonChecker, raw json.RawMessage, nilOK bool) {
	m, err := members(raw)
	if err != nil {
		k.failf("not a JSON object (%v): %s", err, raw)
		return
	}
	k.jsonIs("$", m, "_meta", s.Meta, true)
	if s.Ask != "" {
		// the input requests are on the wire exactly as asked: an empty map is an empty object, not an absent member
		ir, ok := m["inputRequests"]
		if !ok {
			k.failf("$: the result asks for input (%s) but has no inputRequests member", s.Ask)
		} else if im, err := members(ir); err != nil {
			k.failf("$.inputRequests: not an object: %s", ir)
		} else if want := map[string]int{"empty": 0, "roots": 1, "two": 2}[s.Ask]; len(im) != want {
			k.failf("$.inputRequests has %d entries, want %d: %s", len(im), want, ir)
		} else {
			for id, wantMethod := range map[string]string{"r": "roots/list", "e": "elicitation/create"} {
				if e, ok := im[id]; ok {
					em, _ := members(e)
					var method string
					json.Unmarshal(em["method"], &method)
					if method != wantMethod {
						k.failf("$.inputRequests.%s.method is %s, want %q", id, em["method"], wantMethod)
					}
				}
			}
		}
		if s.State != "" {
			k.str("$", m, "requestState", s.State)
		}
	} else if _, ok := m["inputRequests"]; ok {
		k.failf("$: a result that asks for nothing has an inputRequests member")
	}
	switch s.Kind {
	case "CallToolResult":
		if arr := k.list("$", m, "content", len(s.Contents), nilOK); arr != nil {
			for i := range arr {
				k.content(fmt.Sprintf("$.content[%d]", i), arr[i], s.Contents[i])
			}
		}
		k.jsonIs("$", m, "structuredContent", s.Structured, false)
		if b, ok := m["isError"]; (ok && string(b) == "true") != s.IsError {
			k.failf("$: isError is %s, want %v", b, s.IsError)
		}
	case "GetPromptResult", "CreateMessageParams":
		k.str("$", m, map[string]string{"GetPromptResult": "description", "CreateMessageParams": "systemPrompt"}[s.Kind], s.Text)
		if arr := k.list("$", m, "messages", len(s.Contents), nilOK); arr != nil {
			for i := range arr {
				path := fmt.Sprintf("$.messages[%d]", i)
				mm, err := members(arr[i])
				if err != nil {
					k.failf("%s: not an object: %s", path, arr[i])
					continue
				}
				k.str(path, mm, "role", s.Roles[i])
				if c, ok := k.required(path, mm, "content"); ok {
					k.content(path+".content", c, s.Contents[i])
				}
			}
		}
	case "ReadResourceResult":
		if arr := k.list("$", m, "contents", len(s.Resources), nilOK); arr != nil {
			for i := range arr {
				k.resource(fmt.Sprintf("$.contents[%d]", i), arr[i], &s.Resources[i])
			}
		}
	case "CreateMessageWithToolsParams":
		if arr := k.list("$", m, "messages", len(s.PerMessage), nilOK); arr != nil {
			at := 0
			for i := range arr {
				path := fmt.Sprintf("$.messages[%d]", i)
				cs := s.Contents[at : at+s.PerMessage[i]]
				at += s.PerMessage[i]
				mm, err := members(arr[i])
				if err != nil {
					k.failf("%s: not an object: %s", path, arr[i])
					continue
				}
				if c, ok := k.required(path, mm, "content"); ok {
					k.oneOrMany(path+".content", c, cs)
				}
			}
		}
		if len(s.Items) > 0 {
			k.list("$", m, "tools", len(s.Items), false)
		}
	case "CreateMessageResult":
		k.reqString("$", m, "model", s.Text)
		if c, ok := k.required("$", m, "content"); ok {
			k.content("$.content", c, s.Contents[0])
		}
	case "CreateMessageWithToolsResult":
		k.reqString("$", m, "model", s.Text)
		if c, ok := k.required("$", m, "content"); ok {
			k.oneOrMany("$.content", c, s.Contents)
		}
	default:
		k.str("$", m, "nextCursor", s.Cursor)
		arr := k.list("$", m, listKey[s.Kind], len(s.Items), nilOK)
		for i := range arr {
			path := fmt.Sprintf("$.%s[%d]", listKey[s.Kind], i)
			mm, err := members(arr[i])
			if err != nil {
				k.failf("%s: not an object: %s", path, arr[i])
				continue
			}
			k.str(path, mm, "name", s.Items[i].Name)
			k.jsonIs(path, mm, "_meta", s.Items[i].Meta, true)
			switch s.Kind {
			case "ListResourcesResult", "ListRootsResult":
				k.str(path, mm, "uri", s.Items[i].URI)
			case "ListResourceTemplatesResult":
				k.str(path, mm, "uriTemplate", s.Items[i].URI)
			}
			if s.Kind != "ListRootsResult" {
				k.str(path, mm, "title", s.Items[i].Title)
				k.str(path, mm, "description", s.Items[i].Desc)
			}
		}
	}
}

// oneOrMany accepts the documented single-object form for exactly one block, else an array.
func (k *jsonChecker) oneOrMany(path string, raw json.RawMessage, cs []ContentModel) {
	if len(cs) == 1 && strings.HasPrefix(strings.TrimSpace(string(raw)), "{") {
		k.content(path, raw, cs[0])
		return
	}
	k.contents(path, raw, cs)
}

func (s ValScript) nonTrivial() (bool, int) {
	d := 0
	for _, c := range s.Contents {
		d = max(d, c.depth())
	}
	return d >= 2 || s.NilList, d
}

func runVal(s ValScript) (res vt.Result) {
	nt, depth := s.nonTrivial()
	res.NonTrivial = nt
	sj, _ := json.Marshal(s)
	res.Desc = string(sj)
	res.Class("kind:"+s.Kind, fmt.Sprintf("content-depth:%d", depth))
	if s.Ask != "" {
		res.Class("result_asks_for_input_" + s.Ask)
	}
	if s.NilList {
		res.Class("nil-slice")
	} else if len(s.Contents)+len(s.Items)+len(s.Resources)+len(s.PerMessage) == 0 {
		res.Class("empty-slice")
	}
	for _, c := range s.Contents {
		res.Class("content:" + c.Kind)
		for _, n := range c.Nested {
			res.Class("nested:" + n.Kind)
		}
	}
	v, zero := s.build()
	b1, err := json.Marshal(v)
	if err != nil {
		res.Failf("json.Marshal(%s) failed: %v", s.Kind, err)
		return
	}
	s.checkJSON(&jsonChecker{res: &res, what: "json.Marshal(" + s.Kind + ") = " + string(b1)}, b1, s.NilList)
	if len(res.Violations) > 0 {
		return
	}
	for _, dec := range []struct {
		name string
		fn   func([]byte, any) error
	}{{"encoding/json.Unmarshal", json.Unmarshal}, {"internal/json.Unmarshal", internaljson.Unmarshal}} {
		v2 := zero()
		if err := dec.fn(b1, v2); err != nil {
			res.Failf("%s rejects the SDK's own marshalling of a %s: %v\n json: %s", dec.name, s.Kind, err, b1)
			return
		}
		if d := deepEq(reflect.ValueOf(v), reflect.ValueOf(v2), s.Kind); d != "" {
			res.Failf("marshal -> %s does not yield an equal %s: %s\n json: %s", dec.name, s.Kind, d, b1)
			return
		}
		if s.Ask != "" {
			// "no input requests" (nil) and "an empty set of them" (busy) are different answers
			var got mcp.InputRequestMap
			switch r := v2.(type) {
			case *mcp.CallToolResult:
				got = r.InputRequests
			case *mcp.GetPromptResult:
				got = r.InputRequests
			case *mcp.ReadResourceResult:
				got = r.InputRequests
			}
			if got == nil {
				res.Failf("marshal -> %s of a %s that asks for input (%s) yields a result without input requests\n json: %s", dec.name, s.Kind, s.Ask, b1)
				return
			}
		}
		b2, err := json.Marshal(v2)
		if err != nil {
			res.Failf("re-marshalling the decoded %s failed: %v", s.Kind, err)
			return
		}
		// (a nil slice marshalled directly is null and legitimately comes back as an empty slice)
		if !s.NilList && !semEq(b1, b2) {
			res.Failf("marshal -> unmarshal -> marshal of a %s is not a fixpoint:\n first : %s\n second: %s", s.Kind, b1, b2)
			return
		}
	}
	return
}

var valProp = vt.Register(&vt.Prop[ValScript]{Property: "C19", Name: "value", Gen: genVal, Run: runVal})

func TestC19_Value(t *testing.T) { valProp.Check(t) }
