// Package c20 decides property C20 (MemoryEventStore) by model-based generation
// over the public API only.
package c20

import (
	"bytes"
	"context"
	"errors"
	"fmt"
	"runtime"
	"strings"
	"sync"
	"testing"

	"github.com/modelcontextprotocol/go-sdk/mcp"
	"github.com/modelcontextprotocol/go-sdk/verif/vt"
	"pgregory.net/rapid"
)

func TestMain(m *testing.M) { vt.Main(m) }

type Op struct {
	Op     string `json:"op"` // open append after setmax close
	Sess   int    `json:"sess,omitempty"`
	Stream int    `json:"stream,omitempty"`
	Size   int    `json:"size,omitempty"`
	Index  int    `json:"index,omitempty"`
	N      int    `json:"n,omitempty"`
}

type Script struct {
	InitMax int  `json:"init_max"` // 0: keep the default
	Ops     []Op `json:"ops"`
}

func genSeq(rt *rapid.T) Script {
	var s Script
	s.InitMax = rapid.OneOf(rapid.Just(0), rapid.IntRange(1, 64), rapid.IntRange(1, 400)).Draw(rt, "init_max")
	lim := s.InitMax
	if lim == 0 {
		lim = 50
	}
	n := rapid.IntRange(1, 40).Draw(rt, "nops")
	for i := 0; i < n; i++ {
		var op Op
		op.Op = rapid.SampledFrom([]string{"append", "append", "append", "append", "after", "after", "setmax", "close", "open"}).Draw(rt, "op")
		op.Sess = rapid.IntRange(0, 2).Draw(rt, "sess")
		op.Stream = rapid.IntRange(0, 2).Draw(rt, "stream")
		switch op.Op {
		case "append":
			op.Size = rapid.OneOf(
				rapid.Just(0), rapid.Just(1),
				rapid.IntRange(0, 12),
				rapid.IntRange(max(lim-2, 0), lim+2),
				rapid.IntRange(lim, 3*lim+3),
			).Draw(rt, "size")
		case "after":
			op.Index = rapid.IntRange(-1, 45).Draw(rt, "index")
		case "setmax":
			op.N = rapid.OneOf(rapid.IntRange(1, 8), rapid.IntRange(1, 64), rapid.IntRange(1, 500), rapid.Just(0)).Draw(rt, "n")
			if op.N > 0 {
				lim = op.N
			}
		}
		s.Ops = append(s.Ops, op)
	}
	// A shape generated on purpose: one stream grows to many small items, then a single append that needs
	// (almost) the whole budget drains it in one purge - the purge that runs inside that very append - and
	// the stream is read from just before the new item.
	if rapid.IntRange(0, 4).Draw(rt, "drain_macro") == 0 {
		sess, stream := rapid.IntRange(0, 2).Draw(rt, "drain_sess"), rapid.IntRange(0, 2).Draw(rt, "drain_stream")
		k := rapid.IntRange(9, 24).Draw(rt, "drain_k")
		var macro []Op
		macro = append(macro, Op{Op: "setmax", N: k + 2})
		for i := 0; i < k; i++ {
			macro = append(macro, Op{Op: "append", Sess: sess, Stream: stream, Size: 1})
		}
		macro = append(macro, Op{Op: "append", Sess: sess, Stream: stream, Size: rapid.IntRange(k, k+3).Draw(rt, "drain_big")})
		macro = append(macro, Op{Op: "append", Sess: sess, Stream: stream, Size: rapid.IntRange(1, 3).Draw(rt, "drain_next")})
		// (the stream may have held items before: read from every index around the new items)
		for idx := k - 2; idx <= k+12; idx++ {
			macro = append(macro, Op{Op: "after", Sess: sess, Stream: stream, Index: idx})
		}
		pos := rapid.IntRange(0, len(s.Ops)).Draw(rt, "drain_pos")
		s.Ops = append(s.Ops[:pos:pos], append(macro, s.Ops[pos:]...)...)
	}
	return s
}

type mstream struct {
	log     [][]byte
	evicted int // lower bound learnt from observation: number of evicted items (monotone)
}

type model struct {
	max      int
	lastLen  int
	sessions map[int]map[int]*mstream
	// gone: number of items a stream held in its last incarnation when its session was closed
	// (absent: the stream never existed, or exists again).
	gone map[[2]int]int
	seq  int
}

func sid(i int) string  { return fmt.Sprintf("sess-%d", i) }
func stid(i int) string { return fmt.Sprintf("stream-%d", i) }

func payload(seq, size int) []byte {
	b := []byte(fmt.Sprintf("%d|", seq))
	if len(b) >= size {
		return b[len(b)-size:]
	}
	return append(b, bytes.Repeat([]byte{byte('a' + seq%26)}, size-len(b))...)
}

// observe determines, through After alone, how many items of the stream have been
// evicted, checking that every index yields exactly log[i+1:] or a purge error and
// that purged-ness is monotone in the index.
func observe(store *mcp.MemoryEventStore, se, st int, ms *mstream, res *vt.Result) (evicted int, ok bool) {
	ctx := context.Background()
	n := len(ms.log)
	evicted = -1
	firstOK := -2
	for i := -1; i <= n+1; i++ {
		var got [][]byte
		var gerr error
		for d, err := range store.After(ctx, sid(se), stid(st), i) {
			if err != nil {
				gerr = err
				break
			}
			got = append(got, d)
		}
		if gerr != nil {
			if !errors.Is(gerr, mcp.ErrEventsPurged) {
				res.Failf("After(%s,%s,%d) on an open stream returned unexpected error %v", sid(se), stid(st), i, gerr)
				return 0, false
			}
			if len(got) > 0 {
				res.Failf("After(%s,%s,%d) yielded %d items and then an error (partial result)", sid(se), stid(st), i, len(got))
				return 0, false
			}
			if firstOK != -2 {
				res.Failf("After(%s,%s,%d) reports purged although smaller index %d was served (purged-ness not monotone)", sid(se), stid(st), i, firstOK)
				return 0, false
			}
			continue
		}
		if firstOK == -2 {
			firstOK = i
		}
		var want [][]byte
		if i+1 < n {
			want = ms.log[i+1:]
		}
		if len(got) != len(want) {
			res.Failf("After(%s,%s,%d) returned %d items, want exactly the %d appended after that index (log has %d)", sid(se), stid(st), i, len(got), len(want), n)
			return 0, false
		}
		for k := range want {
			if !bytes.Equal(got[k], want[k]) {
				res.Failf("After(%s,%s,%d) item %d = %q, want %q", sid(se), stid(st), i, k, got[k], want[k])
				return 0, false
			}
		}
	}
	if firstOK == -2 {
		res.Failf("After(%s,%s,i) errors for every index up to %d: nothing is servable", sid(se), stid(st), n+1)
		return 0, false
	}
	// index firstOK served => items firstOK+1.. retained => evicted = firstOK+1.
	// Everything beyond the log is trivially servable, so cap at n.
	evicted = min(firstOK+1, n)
	return evicted, true
}

func runSeq(s Script) (res vt.Result) {
	defer func() {
		if r := recover(); r != nil {
			res.Failf("panic: %v", r)
		}
	}()
	store := mcp.NewMemoryEventStore(nil)
	// The default limit is whatever the SDK chose ("a suitable default"), not a number the harness knows.
	defaultMax := store.MaxBytes()
	if defaultMax <= 0 {
		res.Failf("MaxBytes() of a new store is %d, want a positive default", defaultMax)
		return res
	}
	m := &model{max: defaultMax, sessions: map[int]map[int]*mstream{}, gone: map[[2]int]int{}}
	if s.InitMax > 0 {
		store.SetMaxBytes(s.InitMax)
		m.max = s.InitMax
	}
	ctx := context.Background()
	var desc strings.Builder
	sawEvict, afterBelowEvict := false, false

	retained := func() int {
		t := 0
		for _, ss := range m.sessions {
			for _, ms := range ss {
				for _, d := range ms.log[ms.evicted:] {
					t += len(d)
				}
			}
		}
		return t
	}
	get := func(se, st int, create bool) *mstream {
		ss := m.sessions[se]
		if ss == nil {
			if !create {
				return nil
			}
			ss = map[int]*mstream{}
			m.sessions[se] = ss
		}
		ms := ss[st]
		if ms == nil && create {
			ms = &mstream{}
			ss[st] = ms
		}
		return ms
	}

	for step, op := range s.Ops {
		before := retained()
		mayEvict := false
		switch op.Op {
		case "open":
			if err := store.Open(ctx, sid(op.Sess), stid(op.Stream)); err != nil {
				res.Failf("step %d: Open: %v", step, err)
			}
			get(op.Sess, op.Stream, true)
			delete(m.gone, [2]int{op.Sess, op.Stream})
			mayEvict = before > m.max // (lazy catching up, as for close)
			desc.WriteString("o")
		case "append":
			d := payload(m.seq, op.Size)
			m.seq++
			if err := store.Append(ctx, sid(op.Sess), stid(op.Stream), d); err != nil {
				if get(op.Sess, op.Stream, false) == nil {
					// Accepted: nothing promises that Append without a preceding Open (never opened, or the
					// session was closed) creates the stream; a refused Append appended nothing.
					res.Class("append_refused_without_open")
					desc.WriteString("x")
					break
				}
				res.Failf("step %d: Append: %v", step, err)
			}
			ms := get(op.Sess, op.Stream, true)
			delete(m.gone, [2]int{op.Sess, op.Stream})
			ms.log = append(ms.log, d)
			m.lastLen = len(d)
			// The store may purge before or after it stores the item: both keep "never more than the limit
			// plus the most recent item".
			mayEvict = before > m.max || before+len(d) > m.max
			fmt.Fprintf(&desc, "a%d", sizeClass(op.Size, m.max))
		case "setmax":
			store.SetMaxBytes(op.N)
			if op.N == 0 {
				m.max = defaultMax // "a suitable default": the one a new store starts with
			} else {
				m.max = op.N
			}
			if got := store.MaxBytes(); got != m.max {
				res.Failf("step %d: MaxBytes()=%d after SetMaxBytes(%d), want %d", step, got, op.N, m.max)
			}
			mayEvict = before > m.max
			desc.WriteString("m")
		case "close":
			if err := store.SessionClosed(ctx, sid(op.Sess)); err != nil {
				res.Failf("step %d: SessionClosed: %v", step, err)
			}
			for st, ms := range m.sessions[op.Sess] {
				m.gone[[2]int{op.Sess, st}] = len(ms.log)
			}
			delete(m.sessions, op.Sess)
			// A store that is over the limit (allowed after an Append) may also catch up lazily here.
			mayEvict = before > m.max
			desc.WriteString("c")
		case "after":
			ms := get(op.Sess, op.Stream, false)
			mayEvict = before > m.max // (lazy catching up, as for close)
			if ms == nil {
				// Unknown session/stream: never panic, never yield data.
				n := 0
				var gerr error
				for _, err := range store.After(ctx, sid(op.Sess), stid(op.Stream), op.Index) {
					if err != nil {
						gerr = err
						break
					}
					n++
				}
				// Data must never come back. An error is demanded only where payloads after the index were
				// appended and then released by SessionClosed (they were dropped); a stream that never existed
				// holds nothing after any index, so an empty, error-free answer is accepted there.
				dropped := m.gone[[2]int{op.Sess, op.Stream}] > op.Index+1
				if n > 0 || (gerr == nil && dropped) {
					res.Failf("step %d: After on a closed/never-opened stream yielded %d items, err=%v; want an error", step, n, gerr)
				}
				desc.WriteString("u")
			} else {
				if op.Index+1 < ms.evicted {
					afterBelowEvict = true
					desc.WriteString("P")
				} else {
					desc.WriteString("r")
				}
			}
		}
		// Full observation of every live stream after every step.
		for se, ss := range m.sessions {
			for st, ms := range ss {
				ev, ok := observe(store, se, st, ms, &res)
				if !ok {
					res.Violations[len(res.Violations)-1] = fmt.Sprintf("after step %d (%+v): %s", step, op, res.Violations[len(res.Violations)-1])
					return finish(res, &desc, sawEvict, afterBelowEvict)
				}
				if ev < ms.evicted {
					res.Failf("after step %d (%+v): %s/%s serves index %d again although it had been purged (was %d evicted, now %d)", step, op, sid(se), stid(st), ev-1, ms.evicted, ev)
					return finish(res, &desc, sawEvict, afterBelowEvict)
				}
				if ev > ms.evicted {
					sawEvict = true
					if !mayEvict {
						res.Failf("after step %d (%+v): %s/%s lost items %d..%d although retained bytes before the step (%d) did not exceed the limit (%d)", step, op, sid(se), stid(st), ms.evicted, ev-1, before, m.max)
						return finish(res, &desc, sawEvict, afterBelowEvict)
					}
					ms.evicted = ev
				}
			}
		}
		r := retained()
		if r > m.max+m.lastLen {
			res.Failf("after step %d (%+v): retained bytes %d exceed limit %d + most recent item %d", step, op, r, m.max, m.lastLen)
			return finish(res, &desc, sawEvict, afterBelowEvict)
		}
		if op.Op == "setmax" && r > m.max {
			res.Failf("after step %d: SetMaxBytes(%d) did not shrink the store immediately: %d bytes retained", step, op.N, r)
			return finish(res, &desc, sawEvict, afterBelowEvict)
		}
	}
	return finish(res, &desc, sawEvict, afterBelowEvict)
}

func sizeClass(size, max int) int {
	switch {
	case size == 0:
		return 0
	case size < max/2:
		return 1
	case size <= max:
		return 2
	default:
		return 3
	}
}

func finish(res vt.Result, desc *strings.Builder, sawEvict, below bool) vt.Result {
	res.Desc = desc.String()
	res.NonTrivial = sawEvict && below
	if sawEvict {
		res.Class("eviction")
	}
	if below {
		res.Class("after_at_or_below_eviction_point")
	}
	if strings.Contains(res.Desc, "c") {
		res.Class("session_closed")
	}
	if strings.Contains(res.Desc, "m") {
		res.Class("setmax")
	}
	return res
}

var seqProp = vt.Register(&vt.Prop[Script]{Property: "C20", Name: "seq", Gen: genSeq, Run: runSeq})

func TestC20_Seq(t *testing.T) { seqProp.Check(t) }

// ---- concurrent variant -------------------------------------------------------

type ConcScript struct {
	Max       int   `json:"max"`
	Streams   int   `json:"streams"`          // appender goroutines (one per stream), spread over 2 sessions
	Appends   int   `json:"appends"`          // per appender
	Sizes     []int `json:"sizes"`            // cycled payload sizes
	Readers   int   `json:"readers"`          // reader goroutines per stream
	Limits    []int `json:"limits"`           // SetMaxBytes values applied by a limiter goroutine
	CloseSess bool  `json:"close"`            // a goroutine closes session 1 midway (its appenders keep appending: stream restarts)
	Closes    int   `json:"closes,omitempty"` // how many more times session 1 is closed while the others go on
}

func genConc(rt *rapid.T) ConcScript {
	return ConcScript{
		Max:       rapid.IntRange(1, 200).Draw(rt, "max"),
		Streams:   rapid.IntRange(1, 8).Draw(rt, "streams"),
		Appends:   rapid.IntRange(1, 40).Draw(rt, "appends"),
		Sizes:     rapid.SliceOfN(rapid.IntRange(0, 40), 1, 5).Draw(rt, "sizes"),
		Readers:   rapid.IntRange(1, 3).Draw(rt, "readers"),
		Limits:    rapid.SliceOfN(rapid.IntRange(1, 300), 0, 6).Draw(rt, "limits"),
		CloseSess: rapid.Bool().Draw(rt, "close"),
		Closes:    rapid.SampledFrom([]int{0, 0, 3, 10, 30}).Draw(rt, "closes"),
	}
}

func seqOf(d []byte) int {
	i := bytes.IndexByte(d, '|')
	if i < 0 {
		return -1
	}
	n := 0
	for _, c := range d[:i] {
		if c < '0' || c > '9' {
			return -1
		}
		n = n*10 + int(c-'0')
	}
	return n
}

// runConc: every After result seen by any reader at any time must be an error or
// a gap-free run of consecutive items starting right after the index. Payloads
// are >= 8 bytes so each carries its sequence number; ordering within a stream
// is the appender's program order.
func runConc(s ConcScript) (res vt.Result) {
	store := mcp.NewMemoryEventStore(nil)
	store.SetMaxBytes(s.Max)
	ctx := context.Background()
	var mu sync.Mutex
	fail := func(f string, a ...any) {
		mu.Lock()
		if len(res.Violations) < 5 {
			res.Failf(f, a...)
		}
		mu.Unlock()
	}
	var wg sync.WaitGroup
	defer func() {
		if r := recover(); r != nil {
			res.Failf("panic: %v", r)
		}
	}()
	done := make(chan struct{})
	for st := 0; st < s.Streams; st++ {
		se := st % 2
		store.Open(ctx, sid(se), stid(st))
		wg.Add(1)
		go func(se, st int) {
			defer wg.Done()
			for i := 0; i < s.Appends; i++ {
				size := 8 + s.Sizes[i%len(s.Sizes)]
				if err := store.Append(ctx, sid(se), stid(st), payload(i, size)); err != nil && !(s.CloseSess && se == 1) {
					// (session 1 is being closed under the appender: a store may refuse Append without a new Open)
					fail("Append: %v", err)
				}
			}
		}(se, st)
		for r := 0; r < s.Readers; r++ {
			wg.Add(1)
			go func(se, st, r int) {
				defer wg.Done()
				for round := 0; ; round++ {
					select {
					case <-done:
						return
					default:
					}
					idx := (round*7+r)%(s.Appends+1) - 1
					prev := -2
					first := true
					for d, err := range store.After(ctx, sid(se), stid(st), idx) {
						if err != nil {
							if !first {
								fail("After yielded data and then error %v (partial)", err)
							}
							break
						}
						q := seqOf(d)
						// If the session is being closed and restarted, sequence numbers are
						// still the appender's, but indices restart: only contiguity is checked.
						if !first && q != prev+1 {
							fail("After(%s,%s,%d): item %d follows item %d (gap or reorder)", sid(se), stid(st), idx, q, prev)
						}
						if first && !s.CloseSess && q != idx+1 {
							fail("After(%s,%s,%d): first item is #%d, want #%d", sid(se), stid(st), idx, q, idx+1)
						}
						first = false
						prev = q
					}
					if round > 200 {
						return
					}
				}
			}(se, st, r)
		}
	}
	if len(s.Limits) > 0 {
		wg.Add(1)
		go func() {
			defer wg.Done()
			for rep := 0; rep < 1+s.Closes; rep++ {
				for _, l := range s.Limits {
					store.SetMaxBytes(l)
				}
				runtime.Gosched()
			}
		}()
	}
	if s.CloseSess {
		wg.Add(1)
		go func() {
			defer wg.Done()
			for rep := 0; rep < 1+s.Closes; rep++ {
				store.SessionClosed(ctx, sid(1))
				runtime.Gosched()
			}
		}()
	}
	wg.Wait()
	close(done)
	// Quiescent end state: every stream of session 0 (never closed) is a suffix of what its appender wrote.
	for st := 0; st < s.Streams; st += 2 {
		served := false
		for i := -1; i < s.Appends; i++ {
			var got [][]byte
			var gerr error
			for d, err := range store.After(ctx, sid(0), stid(st), i) {
				if err != nil {
					gerr = err
					break
				}
				got = append(got, d)
			}
			if gerr != nil {
				if served {
					fail("final: index %d purged after a smaller index was served", i)
				}
				continue
			}
			served = true
			if len(got) != s.Appends-(i+1) {
				fail("final: After(%d) returned %d items, want %d", i, len(got), s.Appends-(i+1))
				break
			}
			for k, d := range got {
				if seqOf(d) != i+1+k {
					fail("final: After(%d)[%d] is item #%d", i, k, seqOf(d))
				}
			}
		}
	}
	res.Desc = fmt.Sprintf("%d/%d/%d/%v/%d/%v/%v", s.Max, s.Streams, s.Appends, s.Sizes, s.Readers, s.Limits, s.CloseSess)
	total := 0
	for i := 0; i < s.Appends; i++ {
		total += 8 + s.Sizes[i%len(s.Sizes)]
	}
	res.NonTrivial = total*s.Streams > s.Max && s.Streams*s.Readers >= 2
	if s.CloseSess {
		res.Class("concurrent_close")
	}
	return res
}

var concProp = vt.Register(&vt.Prop[ConcScript]{Property: "C20", Name: "conc", Gen: genConc, Run: runConc})

func TestC20_Conc(t *testing.T) { concProp.Check(t) }

func TestReplay(t *testing.T)  { vt.Replay(t) }
func TestRegress(t *testing.T) { vt.Regress(t, "C20") }
func TestKnown(t *testing.T)   { vt.Known(t, "C20") }
