package main

import (
	"bytes"
	"context"
	"fmt"
	"os"
	"os/exec"
	"path/filepath"
	"regexp"
	"strconv"
	"strings"
	"time"
)

var execsRE = regexp.MustCompile(`execs: (\d+)`)
var crasherRE = regexp.MustCompile(`Failing input written to (\S+)`)

// runFuzz runs one native fuzz target for its FuzzTime on all cores. A crasher
// is moved to /verif/replays/<prop>/ and reported through a synthetic VERIF-FAIL line.
func runFuzz(p *prop, r run, repo string) (procResult, int) {
	ft := r.FuzzTime
	if ft == "" {
		ft = "60s"
	}
	d, _ := time.ParseDuration(ft)
	cache := filepath.Join(workDir, "fuzzcache", p.ID, r.Test)
	os.MkdirAll(cache, 0o755)
	ctx, cancel := context.WithTimeout(context.Background(), d+5*time.Minute)
	defer cancel()
	cmd := exec.CommandContext(ctx, "go", "test", "-vet=off", "-run", "^$", "-fuzz", "^"+r.Test+"$", "-fuzztime", ft, "./"+p.Pkg, "-test.fuzzcachedir="+cache)
	cmd.Dir = harnessDir
	cmd.Env = env(repo)
	var buf bytes.Buffer
	cmd.Stdout, cmd.Stderr = &buf, &buf
	start := time.Now()
	err := cmd.Run()
	out := buf.String()
	pr := procResult{name: r.Test + "[fuzz]", out: out, dur: time.Since(start)}
	execs := 0
	if ms := execsRE.FindAllStringSubmatch(out, -1); len(ms) > 0 {
		execs, _ = strconv.Atoi(ms[len(ms)-1][1])
	}
	if err != nil {
		pr.exit = 1
		if ctx.Err() != nil {
			pr.timedOut = true
			return pr, execs
		}
		if m := crasherRE.FindStringSubmatch(out); m != nil {
			src := filepath.Join(harnessDir, p.Pkg, m[1])
			if filepath.IsAbs(m[1]) {
				src = m[1]
			}
			dir := filepath.Join(verifDir, "replays", p.ID)
			os.MkdirAll(dir, 0o755)
			dst := filepath.Join(dir, r.Test+"-"+filepath.Base(src)+".fuzz")
			if b, err := os.ReadFile(src); err == nil {
				os.WriteFile(dst, b, 0o644)
				os.Remove(src)
			}
			pr.out += fmt.Sprintf("\nVERIF-FAIL property=%s test=%s replay=%s :: native fuzz crasher\n", p.ID, r.Test, dst)
		}
	}
	return pr, execs
}

func isFuzzCorpusFile(path string) bool {
	b, err := os.ReadFile(path)
	return err == nil && strings.HasPrefix(string(b), "go test fuzz v1")
}

// replayFuzz re-runs a saved crasher: file name is <FuzzTarget>-<hash>.fuzz.
func replayFuzz(p *prop, repo, file string) int {
	base := filepath.Base(file)
	i := strings.Index(base, "-")
	if i < 0 {
		fmt.Println("BROKEN: fuzz replay file must be named <FuzzTarget>-<hash>.fuzz")
		return 2
	}
	target := base[:i]
	dir := filepath.Join(harnessDir, p.Pkg, "testdata", "fuzz", target)
	os.MkdirAll(dir, 0o755)
	tmp := filepath.Join(dir, "verif-replay")
	b, _ := os.ReadFile(file)
	os.WriteFile(tmp, b, 0o644)
	defer os.Remove(tmp)
	cmd := exec.Command("go", "test", "-vet=off", "-run", "^"+target+"$/verif-replay", "./"+p.Pkg)
	cmd.Dir = harnessDir
	cmd.Env = env(repo)
	out, err := cmd.CombinedOutput()
	if err != nil {
		fmt.Printf("VIOLATION property=%s replay=%s\n", p.ID, file)
		fmt.Println(string(out))
		return 1
	}
	fmt.Printf("replay passed: %s\n", file)
	return 0
}
