// Command driver builds and runs the checks of one property and writes its
// evidence file. Contract (cwd irrelevant; paths are absolute):
//
//	driver CNN quick|thorough      exit 0 held / 1 VIOLATION / 2 broken-or-inconclusive
//	driver CNN --replay <file>     re-execute one replay file without rapid
//
// Environment: VERIF_SEED (0 is remapped to 1), VERIF_TIMEOUT (per-process time budget, e.g. 20m), VERIF_REPO (default /repo; a
// different tree is used through a generated -modfile).
package main

import (
	"bytes"
	"context"
	"encoding/json"
	"fmt"
	"hash/fnv"
	"os"
	"os/exec"
	"path/filepath"
	"regexp"
	"sort"
	"strconv"
	"strings"
	"sync"
	"time"
)

const verifDir = "/verif"

var (
	harnessDir = filepath.Join(verifDir, "harness")
	workDir    = filepath.Join(verifDir, "work")
)

type run struct {
	Test         string // test function name
	Quick        int    // rapid checks in quick tier (0: run once without rapid flags)
	Thorough     int    // rapid checks per shard in thorough tier
	Shards       int    // thorough shards (0 => 16)
	Race         bool   // use the -race binary in the thorough tier
	QuickRace    bool   // use the -race binary in the quick tier as well
	Fuzz         bool   // native fuzz target: thorough only, runs for FuzzTime
	FuzzTime     string
	ThoroughOnly bool
	Timeout      time.Duration // per process; default 8m quick / 40m thorough
}

type prop struct {
	ID          string
	Pkg         string // package dir below harness/
	Rule        string
	Assumptions []string
	Exhaustive  bool
	Runs        []run
	Overlay     bool // needs the white-box overlay build (see overlay.go)

	// MANIFEST fields
	LevelText string
	LevelNote string
	Technique string
	DesignRef string
}

func env(repo string) []string {
	e := os.Environ()
	out := e[:0:0]
	for _, kv := range e {
		if strings.HasPrefix(kv, "GOSUMDB=") || strings.HasPrefix(kv, "GOFLAGS=") || strings.HasPrefix(kv, "GOPROXY=") || strings.HasPrefix(kv, "GOTOOLCHAIN=") {
			continue
		}
		out = append(out, kv)
	}
	flags := "-mod=mod"
	if repo != "/repo" {
		flags += " -modfile=" + altModfile(repo)
	}
	out = append(out, "GOFLAGS="+flags, "GOPROXY=off", "GOTOOLCHAIN=auto", "VERIF_DIR="+verifDir, "GOGC=400")
	return out
}

// altModfile writes a copy of harness/go.mod whose replace points at repo.
func altModfile(repo string) string {
	b, err := os.ReadFile(filepath.Join(harnessDir, "go.mod"))
	if err != nil {
		fatal(2, "read go.mod: %v", err)
	}
	s := strings.Replace(string(b), "=> /repo", "=> "+repo, 1)
	// one directory per scratch tree: several mutant runs may be going on at the same time
	dir := filepath.Join(workDir, "alt", repoTag(repo))
	os.MkdirAll(dir, 0o755)
	p := filepath.Join(dir, "go.mod")
	os.WriteFile(p, []byte(s), 0o644)
	if sum, err := os.ReadFile(filepath.Join(harnessDir, "go.sum")); err == nil {
		os.WriteFile(filepath.Join(dir, "go.sum"), sum, 0o644)
	}
	return p
}

// repoTag is a short stable name for a scratch tree.
func repoTag(repo string) string {
	h := fnv.New32a()
	h.Write([]byte(repo))
	return fmt.Sprintf("%08x", h.Sum32())
}

func fatal(code int, format string, a ...any) {
	fmt.Fprintf(os.Stderr, "driver: "+format+"\n", a...)
	os.Exit(code)
}

func main() {
	if len(os.Args) < 3 {
		fatal(2, "usage: driver CNN quick|thorough | driver CNN --replay <file>")
	}
	if os.Args[1] == "--manifest" {
		writeManifest(os.Args[2])
		return
	}
	id := os.Args[1]
	p := findProp(id)
	if p == nil {
		fatal(2, "unknown property %q", id)
	}
	repo := os.Getenv("VERIF_REPO")
	if repo == "" {
		repo = "/repo"
	}
	seed := int64(1)
	if s := os.Getenv("VERIF_SEED"); s != "" {
		if v, err := strconv.ParseInt(s, 10, 64); err == nil {
			seed = v
		}
	}
	if seed == 0 {
		seed = 1
	}
	if seed < 0 {
		seed = -seed
	}
	if os.Args[2] == "--replay" {
		if len(os.Args) < 4 {
			fatal(2, "--replay needs a file")
		}
		os.Exit(replay(p, repo, os.Args[3]))
	}
	tier := os.Args[2]
	if tier != "quick" && tier != "thorough" {
		fatal(2, "tier must be quick or thorough")
	}
	os.Exit(check(p, repo, tier, seed))
}

// runTag names this invocation's scratch directories under work/.
var runTag = fmt.Sprintf("run.%d", os.Getpid())

func journalDir() string { return filepath.Join(workDir, "journal", runTag) }

func binPath(p *prop, race bool, repo string) string {
	name := strings.ToLower(p.ID)
	if race {
		name += ".race"
	}
	if repo != "/repo" {
		name += ".alt-" + repoTag(repo)
	}
	return filepath.Join(workDir, "bin", name+".test")
}

func build(p *prop, race bool, repo string) error {
	os.MkdirAll(filepath.Join(workDir, "bin"), 0o755)
	args := []string{"test", "-c", "-vet=off", "-o", binPath(p, race, repo)}
	if race {
		args = append(args, "-race")
	}
	args = append(args, "./"+p.Pkg)
	cmd := exec.Command("go", args...)
	cmd.Dir = harnessDir
	cmd.Env = env(repo)
	out, err := cmd.CombinedOutput()
	if err != nil {
		return fmt.Errorf("build %s failed: %v\n%s", p.Pkg, err, out)
	}
	return nil
}

type procResult struct {
	name     string
	seed     int64
	out      string
	exit     int
	timedOut bool
	stats    string
	dur      time.Duration
}

var sem = make(chan struct{}, 16)

func runProc(p *prop, bin string, name string, args []string, extraEnv []string, timeout time.Duration, statsFile string, repo string) procResult {
	sem <- struct{}{}
	defer func() { <-sem }()
	start := time.Now()
	ctx, cancel := context.WithTimeout(context.Background(), timeout+30*time.Second)
	defer cancel()
	cmd := exec.CommandContext(ctx, bin, args...)
	cwd := filepath.Join(workDir, "cwd", p.ID)
	os.MkdirAll(cwd, 0o755)
	cmd.Dir = cwd
	cmd.Env = append(env(repo), extraEnv...)
	// Memory: 16 shards run side by side. Race-instrumented binaries keep several times the heap, so they
	// collect at the default pace; every process gets a soft limit (the collector works harder near it,
	// nothing fails because of it).
	if strings.Contains(filepath.Base(bin), ".race.") {
		cmd.Env = append(cmd.Env, "GOGC=100", "GOMEMLIMIT=2GiB")
	} else {
		cmd.Env = append(cmd.Env, "GOMEMLIMIT=3GiB")
	}
	cmd.Env = append(cmd.Env, "VERIF_STATS="+statsFile, "VERIF_JOURNAL="+journalDir())
	if repo != "/repo" && !hasEnv(extraEnv, "VERIF_REPLAY_DIR") {
		cmd.Env = append(cmd.Env, "VERIF_REPLAY_DIR="+filepath.Join(workDir, "alt-replays", p.ID))
	}
	var buf bytes.Buffer
	cmd.Stdout = &buf
	cmd.Stderr = &buf
	err := cmd.Run()
	r := procResult{name: name, out: buf.String(), stats: statsFile, dur: time.Since(start)}
	if err != nil {
		r.exit = 1
		if ee, ok := err.(*exec.ExitError); ok {
			r.exit = ee.ExitCode()
		}
		if ctx.Err() != nil {
			r.timedOut = true
		}
	}
	if strings.Contains(r.out, "panic: test timed out") {
		r.timedOut = true
	}
	return r
}

var failRE = regexp.MustCompile(`(?m)^VERIF-FAIL property=(\S+) test=(\S+) replay=(\S+)(.*)$`)

type mergedStats struct {
	Evaluations int
	Hashes      map[uint64]struct{}
	NonTrivial  int
	Classes     map[string]int
	Samples     []any
	Counters    map[string]int
	PerTest     map[string]map[string]int
}

func mergeStats(files []string) mergedStats {
	m := mergedStats{Hashes: map[uint64]struct{}{}, Classes: map[string]int{}, Counters: map[string]int{}, PerTest: map[string]map[string]int{}}
	for _, f := range files {
		b, err := os.ReadFile(f)
		if err != nil {
			continue
		}
		var doc struct {
			Tests map[string]struct {
				Evaluations int            `json:"evaluations"`
				NonTrivial  int            `json:"nontrivial"`
				Hashes      []uint64       `json:"hashes"`
				Classes     map[string]int `json:"classes"`
				Samples     []any          `json:"samples"`
				NTSamples   []any          `json:"nt_samples"`
			} `json:"tests"`
			Counters map[string]int `json:"counters"`
		}
		if json.Unmarshal(b, &doc) != nil {
			continue
		}
		names := make([]string, 0, len(doc.Tests))
		for n := range doc.Tests {
			names = append(names, n)
		}
		sort.Strings(names)
		for _, n := range names {
			t := doc.Tests[n]
			m.Evaluations += t.Evaluations
			m.NonTrivial += t.NonTrivial
			for _, h := range t.Hashes {
				m.Hashes[h] = struct{}{}
			}
			pt := m.PerTest[n]
			if pt == nil {
				pt = map[string]int{}
				m.PerTest[n] = pt
			}
			pt["evaluations"] += t.Evaluations
			pt["nontrivial"] += t.NonTrivial
			for c, k := range t.Classes {
				m.Classes[n+"/"+c] += k
			}
			if len(m.Samples) < 12 {
				for i, s := range t.NTSamples {
					if i < 2 {
						m.Samples = append(m.Samples, map[string]any{"test": n, "nontrivial": true, "script": s})
					}
				}
				for i, s := range t.Samples {
					if i < 1 {
						m.Samples = append(m.Samples, map[string]any{"test": n, "script": s})
					}
				}
			}
		}
		for k, v := range doc.Counters {
			m.Counters[k] += v
		}
	}
	return m
}

func gitInfo(repo string) map[string]any {
	out := map[string]any{}
	if b, err := exec.Command("git", "-C", repo, "rev-parse", "HEAD").Output(); err == nil {
		out["repo_head"] = strings.TrimSpace(string(b))
	}
	if b, err := exec.Command("git", "-C", repo, "status", "--porcelain").Output(); err == nil {
		out["repo_dirty"] = len(bytes.TrimSpace(b)) > 0
	}
	out["repo"] = repo
	return out
}

func check(p *prop, repo, tier string, seed int64) int {
	start := time.Now()
	evidencePath := filepath.Join(verifDir, "evidence", p.ID+".json")
	if repo != "/repo" {
		// Sensitivity runs against a scratch tree never touch the real evidence.
		evidencePath = filepath.Join(workDir, "alt-evidence", p.ID+".json")
	}
	os.MkdirAll(filepath.Dir(evidencePath), 0o755)
	os.Remove(evidencePath)

	needRace, needPlain := false, false
	for _, r := range p.Runs {
		if tier == "quick" && (r.ThoroughOnly || r.Fuzz) {
			continue
		}
		if (tier == "thorough" && r.Race) || r.QuickRace {
			needRace = true
		} else {
			needPlain = true
		}
	}
	needPlain = true // regress/known always run on the plain binary
	var berr error
	var wg sync.WaitGroup
	var bmu sync.Mutex
	for _, race := range []bool{false, true} {
		if (race && !needRace) || (!race && !needPlain) {
			continue
		}
		wg.Add(1)
		go func(race bool) {
			defer wg.Done()
			if err := build(p, race, repo); err != nil {
				bmu.Lock()
				berr = err
				bmu.Unlock()
			}
		}(race)
	}
	wg.Wait()
	if berr != nil {
		fmt.Fprintln(os.Stderr, berr)
		fmt.Printf("BROKEN property=%s build failed\n", p.ID)
		return 2
	}

	// Per-invocation scratch (several checks of one property may run at the same time:
	// quick on the real tree, a mutant run, a thorough run).
	runTag = fmt.Sprintf("%s.%d", p.ID, os.Getpid())
	statsDir := filepath.Join(workDir, "stats", runTag)
	os.RemoveAll(statsDir)
	os.MkdirAll(statsDir, 0o755)
	defer os.RemoveAll(statsDir)
	defer os.RemoveAll(journalDir())
	if repo != "/repo" {
		// binaries and module files of a scratch tree are of no use once the run is over
		defer func() {
			os.Remove(binPath(p, false, repo))
			os.Remove(binPath(p, true, repo))
			os.RemoveAll(filepath.Join(workDir, "alt", repoTag(repo)))
		}()
	}
	// Stale replays of this property are removed so a reported path is always from this run.
	// Runs against a scratch tree (VERIF_REPO) keep their replays apart from the real ones.
	replayDir := filepath.Join(verifDir, "replays", p.ID)
	if repo != "/repo" {
		replayDir = filepath.Join(workDir, "alt-replays", p.ID)
	}
	os.RemoveAll(replayDir)
	os.RemoveAll(journalDir())

	var results []procResult
	var rmu sync.Mutex
	add := func(r procResult) {
		rmu.Lock()
		results = append(results, r)
		rmu.Unlock()
	}
	var seeds []int64
	var pw sync.WaitGroup

	// 1. regressions + known findings
	pw.Add(1)
	go func() {
		defer pw.Done()
		sf := filepath.Join(statsDir, "fixed.json")
		add(runProc(p, binPath(p, false, repo), "regress+known", []string{"-test.run", "^(TestRegress|TestKnown)$", "-test.v", "-test.timeout", "5m"}, nil, 5*time.Minute, sf, repo))
	}()

	// 2. generated runs
	for _, r := range p.Runs {
		if tier == "quick" && (r.ThoroughOnly || r.Fuzz) {
			continue
		}
		if r.Fuzz {
			continue // handled below, after the rapid runs (uses all cores)
		}
		shards, checks := 1, r.Quick
		race := r.QuickRace
		timeout := r.Timeout
		if tier == "thorough" {
			shards, checks = r.Shards, r.Thorough
			if shards == 0 {
				shards = 16
			}
			race = r.Race || r.QuickRace
			if timeout == 0 {
				timeout = 40 * time.Minute
			}
		} else if timeout == 0 {
			timeout = 8 * time.Minute
		}
		if checks == 0 {
			shards = 1
		}
		if d, err := time.ParseDuration(os.Getenv("VERIF_TIMEOUT")); err == nil && d > 0 {
			timeout = d // per-process time budget override (a run that exhausts it reports what it explored)
		}
		for i := 0; i < shards; i++ {
			s := seed
			if tier == "thorough" {
				s = seed*1000003 + int64(i)
			}
			seeds = append(seeds, s)
			pw.Add(1)
			go func(r run, i int, s int64, checks int, race bool, timeout time.Duration) {
				defer pw.Done()
				args := []string{"-test.run", "^" + r.Test + "$", "-test.timeout", timeout.String(), "-rapid.nofailfile"}
				if checks > 0 {
					args = append(args, "-rapid.checks="+strconv.Itoa(checks), "-rapid.seed="+strconv.FormatInt(s, 10))
				} else {
					args = append(args, "-rapid.seed="+strconv.FormatInt(s, 10))
				}
				sf := filepath.Join(statsDir, fmt.Sprintf("%s-%d.json", r.Test, i))
				pr := runProc(p, binPath(p, race, repo), fmt.Sprintf("%s[%d]", r.Test, i), args,
					[]string{"VERIF_SHARD=" + strconv.Itoa(i), "VERIF_TIER=" + tier, "VERIF_SEED=" + strconv.FormatInt(s, 10)}, timeout, sf, repo)
				pr.seed = s
				add(pr)
				// A case that stalls virtual time (goroutines of the code under test waiting on each other's
				// mutexes) ends the process before the search is over: inconclusive as it stands. The search is
				// taken up again twice from derived seeds, so that a violation that can be shown is still shown;
				// the stall stays reported next to it.
				for attempt := 1; attempt <= 2 && checks > 0 && strings.Contains(pr.out, "VERIF-WATCHDOG") && !failRE.MatchString(pr.out); attempt++ {
					s2 := s + int64(attempt)*7919
					args2 := append(append([]string(nil), args[:len(args)-1]...), "-rapid.seed="+strconv.FormatInt(s2, 10))
					sf2 := filepath.Join(statsDir, fmt.Sprintf("%s-%d-retry%d.json", r.Test, i, attempt))
					pr = runProc(p, binPath(p, race, repo), fmt.Sprintf("%s[%d+retry%d]", r.Test, i, attempt), args2,
						[]string{"VERIF_SHARD=" + strconv.Itoa(i), "VERIF_TIER=" + tier, "VERIF_SEED=" + strconv.FormatInt(s2, 10)}, timeout, sf2, repo)
					pr.seed = s2
					add(pr)
				}
			}(r, i, s, checks, race, timeout)
		}
	}
	pw.Wait()

	fuzzExecs := 0
	if tier == "thorough" {
		for _, r := range p.Runs {
			if !r.Fuzz {
				continue
			}
			pr, execs := runFuzz(p, r, repo)
			fuzzExecs += execs
			results = append(results, pr)
		}
	}

	// 3. classify
	violations := 0
	broken := 0
	printed := map[string]bool{}
	var statFiles []string
	for _, r := range results {
		statFiles = append(statFiles, r.stats)
		for _, line := range strings.Split(r.out, "\n") {
			if strings.HasPrefix(line, "KNOWN-FINDING:") && !printed[line] {
				printed[line] = true
				fmt.Println(line)
			}
			if strings.HasPrefix(line, "VERIF-NOTE") && !printed[line] {
				printed[line] = true
				fmt.Println(line)
			}
		}
		if r.exit == 0 {
			continue
		}
		if r.exit == 4 && strings.Contains(r.out, "VERIF-CUTSHORT") && !failRE.MatchString(r.out) {
			// the time budget ended before the requested number of cases: what was explored held (counted in the evidence)
			fmt.Printf("NOTE property=%s %s: time budget ended before the requested number of cases\n", p.ID, r.name)
			continue
		}
		ms := failRE.FindAllStringSubmatch(r.out, -1)
		if len(ms) > 0 {
			last := ms[len(ms)-1]
			line := fmt.Sprintf("VIOLATION property=%s replay=%s", p.ID, last[3])
			if !printed[line] {
				printed[line] = true
				fmt.Println(line)
				fmt.Printf("  (%s)%s\n", r.name, last[4])
				violations++
			}
			saveLog(p, r)
			continue
		}
		if strings.Contains(r.out, "VERIF-WATCHDOG") {
			r.timedOut = true
		}
		if r.timedOut {
			fmt.Printf("INCONCLUSIVE property=%s %s timed out after %s\n", p.ID, r.name, r.dur.Round(time.Second))
			saveLog(p, r)
			broken++
			continue
		}
		if j := crashJournal(p, r); j != "" {
			fmt.Printf("VIOLATION property=%s replay=%s\n  (%s: test process crashed; journalled script, not shrunk)\n", p.ID, j, r.name)
			violations++
			saveLog(p, r)
			continue
		}
		fmt.Printf("BROKEN property=%s %s exited %d without a verdict\n", p.ID, r.name, r.exit)
		saveLog(p, r)
		broken++
	}

	// 4. evidence
	m := mergeStats(statFiles)
	m.Evaluations += fuzzExecs + m.Counters["exhaustive_cells"]
	cov := map[string]any{
		"evaluations":         m.Evaluations,
		"distinct_nontrivial": len(m.Hashes),
		"nontrivial_total":    m.NonTrivial,
		"rule":                p.Rule,
		"samples":             m.Samples,
		"classes":             m.Classes,
		"per_test":            m.PerTest,
		"counters":            m.Counters,
		"seeds":               seeds,
		"build":               gitInfo(repo),
	}
	if fuzzExecs > 0 {
		cov["native_fuzz_execs"] = fuzzExecs
	}
	if p.Exhaustive {
		cov["exhaustive"] = false
		if m.Counters["exhaustive_cells"] > 0 {
			cov["exhaustive_submatrix_cells"] = m.Counters["exhaustive_cells"]
		}
	}
	if len(m.Samples) == 0 {
		cov["samples"] = []any{"(no case completed)"}
	}
	ev := map[string]any{
		"property_id": p.ID,
		"tier":        tier,
		"seed":        seed,
		"level":       "exploration",
		"coverage":    cov,
		"assumptions": p.Assumptions,
		"wall_s":      time.Since(start).Seconds(),
		"violations":  violations,
	}
	b, _ := json.MarshalIndent(ev, "", " ")
	if err := os.WriteFile(evidencePath, b, 0o644); err != nil {
		fmt.Fprintln(os.Stderr, "write evidence:", err)
		broken++
	}
	fmt.Printf("%s %s: %d cases, %d distinct non-trivial, %d violation(s), %.1fs\n", p.ID, tier, m.Evaluations, len(m.Hashes), violations, time.Since(start).Seconds())
	switch {
	case violations > 0:
		return 1
	case broken > 0:
		return 2
	}
	return 0
}

func hasEnv(env []string, key string) bool {
	for _, kv := range env {
		if strings.HasPrefix(kv, key+"=") {
			return true
		}
	}
	return false
}

func saveLog(p *prop, r procResult) {
	dir := filepath.Join(workDir, "logs", p.ID)
	os.MkdirAll(dir, 0o755)
	name := strings.NewReplacer("[", "-", "]", "", "+", "-").Replace(r.name)
	path := filepath.Join(dir, name+".log")
	out := r.out
	if len(out) > 2<<20 {
		out = out[:1<<20] + "\n...[truncated]...\n" + out[len(out)-(1<<20):]
	}
	os.WriteFile(path, []byte(out), 0o644)
	fmt.Printf("  log: %s\n", path)
	// Show the tail to the caller.
	lines := strings.Split(strings.TrimSpace(r.out), "\n")
	if len(lines) > 25 {
		lines = lines[len(lines)-25:]
	}
	for _, l := range lines {
		fmt.Println("  | " + l)
	}
}

// crashJournal returns the path of a journal left behind by a process that died
// (panic in an SDK goroutine), copied to the replay directory.
func crashJournal(p *prop, r procResult) string {
	if !strings.Contains(r.out, "panic:") && !strings.Contains(r.out, "fatal error:") {
		return ""
	}
	files, _ := filepath.Glob(filepath.Join(journalDir(), p.ID+"-*.json"))
	for _, f := range files {
		b, err := os.ReadFile(f)
		if err != nil || len(b) == 0 {
			continue
		}
		dir := filepath.Join(verifDir, "replays", p.ID)
		if os.Getenv("VERIF_REPO") != "" && os.Getenv("VERIF_REPO") != "/repo" {
			dir = filepath.Join(workDir, "alt-replays", p.ID)
		}
		os.MkdirAll(dir, 0o755)
		dst := filepath.Join(dir, "crash-"+filepath.Base(f))
		os.WriteFile(dst, b, 0o644)
		return dst
	}
	return ""
}

func replay(p *prop, repo, file string) int {
	if err := build(p, false, repo); err != nil {
		fmt.Fprintln(os.Stderr, err)
		return 2
	}
	abs, _ := filepath.Abs(file)
	if isFuzzCorpusFile(abs) {
		return replayFuzz(p, repo, abs)
	}
	r := runProc(p, binPath(p, false, repo), "replay", []string{"-test.run", "^TestReplay$", "-test.v", "-test.timeout", "5m"},
		[]string{"VERIF_REPLAY=" + abs, "VERIF_REPLAY_DIR=" + filepath.Join(workDir, "replay-out")}, 5*time.Minute, filepath.Join(workDir, "stats", "replay.json"), repo)
	if r.exit == 0 && strings.Contains(r.out, "VERIF-REPLAY-OK") {
		fmt.Printf("replay passed: %s\n", abs)
		return 0
	}
	if failRE.MatchString(r.out) {
		fmt.Printf("VIOLATION property=%s replay=%s\n", p.ID, abs)
		saveLog(p, r)
		return 1
	}
	if j := crashJournal(p, r); j != "" || strings.Contains(r.out, "panic:") {
		fmt.Printf("VIOLATION property=%s replay=%s\n  (process crashed)\n", p.ID, abs)
		saveLog(p, r)
		return 1
	}
	fmt.Printf("BROKEN replay of %s\n", abs)
	saveLog(p, r)
	return 2
}
