package main

import (
	"bytes"
	"encoding/json"
	"os"
)

// writeManifest regenerates MANIFEST.json from the property table so that the two never drift.
func writeManifest(path string) {
	type level struct {
		Category  string `json:"category"`
		Text      string `json:"text"`
		DesignRef string `json:"design_ref,omitempty"`
	}
	type chk struct {
		PropertyID  string `json:"property_id"`
		QuickCmd    string `json:"quick_cmd"`
		ThoroughCmd string `json:"thorough_cmd"`
		Evidence    string `json:"evidence_file"`
		Replay      string `json:"replay_cmd_template"`
		Engine      string `json:"engine"`
		Level       level  `json:"level_claimed"`
		LevelNote   string `json:"level_note"`
		Technique   string `json:"technique"`
	}
	var checks []chk
	var ids []string
	for _, p := range props {
		ids = append(ids, p.ID)
		checks = append(checks, chk{
			PropertyID:  p.ID,
			QuickCmd:    "./check " + p.ID + " quick",
			ThoroughCmd: "./check " + p.ID + " thorough",
			Evidence:    "/verif/evidence/" + p.ID + ".json",
			Replay:      "./check " + p.ID + " --replay {path}",
			Engine:      "pbt-harness",
			Level:       level{Category: "exploration", Text: p.LevelText, DesignRef: p.DesignRef},
			LevelNote:   p.LevelNote,
			Technique:   p.Technique,
		})
	}
	na := []map[string]string{}
	listed := map[string]bool{}
	for _, id := range ids {
		listed[id] = true
	}
	for _, n := range notApplicable {
		na = append(na, map[string]string{"property_id": n[0], "reason": n[1]})
		listed[n[0]] = true
	}
	// Every property of properties.jsonl that has no check yet is listed as unclaimed.
	if f, err := os.ReadFile("/verif/properties.jsonl"); err == nil {
		for _, line := range bytes.Split(f, []byte("\n")) {
			var rec struct {
				ID string `json:"id"`
			}
			if json.Unmarshal(line, &rec) == nil && rec.ID != "" && !listed[rec.ID] {
				na = append(na, map[string]string{"property_id": rec.ID, "reason": "not claimed at this commit: its generated check is still under construction (see DESIGN.md section 3)"})
			}
		}
	}
	m := map[string]any{
		"version":   1,
		"setup_cmd": "sh /verif/setup.sh",
		"hooks": map[string]any{
			"guard":            "verif",
			"enable":           "no hooks are needed: the harness module /verif/harness replaces the SDK module with /repo's working tree (go test -c), nested module path gives access to internal/jsonrpc2",
			"baseline_off_cmd": "cd /repo && GOFLAGS=-mod=mod go test -vet=off -count=1 -timeout 25m ./...",
			"source_commits":   hookCommits,
			"add_only":         true,
		},
		"engines": []map[string]any{{
			"name": "pbt-harness", "path": "/verif/harness",
			"serves_properties": ids,
			"kind_free_text":    "Go module with one package per property: rapid v1.3.0 generators draw JSON scripts, a deterministic interpreter runs them against the SDK (testing/synctest virtual time, in-memory gated transports, in-memory HTTP), reference-model oracles; native go fuzz targets in the thorough tier; driver shards, maps exit codes and writes evidence",
		}},
		"checks":         checks,
		"not_applicable": na,
		"notes":          "All checks: ./check CNN quick|thorough (cwd /verif). Exit 0 held, 1 VIOLATION line, 2 broken/inconclusive. Known findings live in /verif/known_findings.json. See DESIGN.md.",
	}
	b, _ := json.MarshalIndent(m, "", " ")
	os.WriteFile(path, append(b, '\n'), 0o644)
}
