package main

func init() {
	register(prop{
		ID: "C01", Pkg: "c01",
		Rule:        "TestC01_Links: a real client with 1-4 calls parked on a real server over a byte pipe, the legacy SSE transport or stateful streamable HTTP (with and without event store); some calls are answered, then the server side goes away without a goodbye (pipe end closed; event stream / response bodies cut with an error or cleanly; later exchanges fail, optionally except SSE POSTs): every pending call completes with an error by itself within 20 virtual minutes, and so does a call started afterwards. rapid draws a schedule (<=40 events, <=12 calls) over call(ctx kind)/release-write(ok|broken|rejected)/respond(result|error|wrong id type|unknown id; also to completed ids)/reader EOF|error/cancel/close/fail-all-writes/sleep for a client session (tools/call) or a server session (roots/list) whose peer is a scripted connection; quiescence (synctest.Wait) after each event (seq) or scheduler-chosen races between events (race). A wire variant (TestC01_Wire) runs the session over the real newline-delimited transport with a raw byte peer that answers outstanding calls in arbitrary order and grouping (single lines, JSON-RPC batches mixed with notifications and stray responses). Oracle: per-id delivery model. Non-trivial = response injected while the call's write is parked, reader failure or Close with >=1 pending call, or a write failure/rejection; distinct by event-kind string.",
		Assumptions: []string{"peer and transport are scripted (memio.ScriptConn); virtual time via testing/synctest", "bounds: <=12 calls, <=40 events", "'completes twice' would surface as the SDK's own 'retire called twice' panic (process crash -> journalled script)"},
		LevelText:   "Generated schedules of calls, write completions, responses, faults, cancellations and Close against a per-id delivery model; liveness (no call blocked after Wait) is decided inside a synctest bubble; a -race variant leaves event order to the scheduler.",
		LevelNote:   "Trusts the delivery model in harness/c01 and synctest's quiescence/deadlock detection. Interleavings inside SDK critical sections are reached only by chance. Two arrangements (stdio transport with a blocked Write; streamable client told another session id) also run in real time outside a bubble, where a deadlock through a plain mutex is decided from the goroutine dump (DESIGN 2.6c); wall-clock time is never the oracle there either.",
		Technique:   "schedule-generating property-based testing (rapid + testing/synctest) against a reference delivery model; race-detector variant; two real-time variants with goroutine-dump quiescence",
		DesignRef:   "DESIGN.md section 3, C01",
		Runs: []run{
			{Test: "TestC01_Seq", Quick: 4000, Thorough: 320000},
			{Test: "TestC01_Race", Quick: 1000, Thorough: 80000, Race: true},
			{Test: "TestC01_Links", Quick: 1000, Thorough: 40000},
			{Test: "TestC01_Wire", Quick: 1500, Thorough: 160000},
			{Test: "TestC01_Stdio", Quick: 1200, Thorough: 20000, Shards: 2},
			{Test: "TestC01_StdioRT", Quick: 60, Thorough: 2000, Shards: 4},
			{Test: "TestC01_SessionIDRT", Quick: 40, Thorough: 1000, Shards: 4},
			{Test: "TestC01_Ephemeral", Quick: 300, Thorough: 10000, Shards: 4},
		},
	})
}
