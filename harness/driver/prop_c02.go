package main

func init() {
	register(prop{
		ID: "C02", Pkg: "c02",
		Rule:        "rapid draws sequences (<=25 steps) of JSON-RPC envelopes from a grammar: id absent / string (empty, unicode, digit strings) / integer over the whole int64 range incl. +-2^53+-1 and Min/MaxInt64; method known call, known notification, unknown, empty; params absent/null/valid/wrong-typed/array; id on notification-only methods, no id on call methods; batches of any composition (negotiated version < 2025-06-18); re-use of in-flight ids; tool handlers parked on gates and released in generated order. Same scripts over the streamable HTTP handler (SSE and JSON response modes) and the legacy SSE handler through an in-memory HTTP bridge (an HTTP 4xx for a POST containing a malformed envelope is accepted). The same grammar towards an SDK client (the raw peer plays the server on the ndjson transport: ping, roots/list, sampling/createMessage, elicitation/create, the client-side notifications, server-side and invented methods; client with or without the optional handlers). Raw byte peer; ids compared as JSON tokens; a liveness ping after every step. Non-trivial = batch mixing calls and notifications, id outside +-2^53, in-flight id re-use, or out-of-order completion; distinct by shape signature.",
		Assumptions: []string{"two calls with one id inside one batch, and a batch re-using an in-flight id, are not generated (the ndjson reader rejects the payload and ends the session; see DESIGN.md)", "valid requests may be answered with a result or an error; only malformed ones have a mandated code"},
		LevelText:   "Grammar-based generation of envelope sequences against an independent per-id-token response counter with mandated error codes; handler completion order is scripted through gates; session liveness probed after every step.",
		LevelNote:   "Trusts the envelope classifier in harness/c02 (written from the property text and JSON-RPC 2.0) and encoding/json's token reading.",
		Technique:   "grammar-based property testing (rapid) with a raw wire peer and an independent response-counting oracle",
		DesignRef:   "DESIGN.md section 3, C02",
		Runs: []run{
			{Test: "TestC02_NDJSON", Quick: 2000, Thorough: 30000},
			{Test: "TestC02_HTTP", Quick: 1500, Thorough: 20000},
			{Test: "TestC02_Client", Quick: 1500, Thorough: 30000},
		},
	})
}
