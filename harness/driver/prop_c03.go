package main

func init() {
	register(prop{
		ID: "C03", Pkg: "c03",
		Rule:        "rapid draws (direction, link, sequence of 2..15 items: progress / roots-list-changed / log notifications and tool / ping / list / roots / sampling calls, each with a virtual handler duration 0..10s and an optional sender pause); one sending goroutine issues them (calls asynchronously: it only waits, by quiescence, until the call is sent); receiving middleware records start/end on a logical clock + virtual time. Client->server over in-memory, io pipe, SSE, streamable stateful (SSE/JSON/event store) and stateless; server->client over in-memory, pipe, SSE and the streamable standalone stream. A raw-peer variant sends messages right behind a slow initialize. TestC03_Multi connects one client to 1..3 servers and interleaves fan-out notifications (AddRoots) with messages on individual sessions, optionally with a delaying client sending middleware. Non-trivial = a notification with duration > 0 followed by another message; distinct by (dir, link, kind/duration-class sequence). Class calls_overlapped shows the harness itself does not serialise calls. TestC03_Batch: a raw peer on the newline-delimited transport groups 1-12 notifications and calls per line into JSON-RPC batches (SDK server as receiver at 2025-03-26 / 2024-11-05, SDK client as receiver); the members of a batch count as sent in array order, so a notification's handler has finished before the handler of any member or line behind it starts. TestC03_Senders: 2-3 goroutines of one server notify the same client at overlapping times (resources/updated for two URIs, log messages, progress) over an in-memory link whose chosen writes take 1 ms-3 s; per goroutine, what it sends after a notifying method returned is observed after that notification (for resources/updated: after one for that URI that arrived once the call had started).",
		Assumptions: []string{"virtual time (testing/synctest); real Client and Server over in-memory links", "server->client on streamable HTTP only for messages issued outside a request (all routed to the standalone stream)", "teardown leftovers are only counted here (C05 judges them)"},
		LevelText:   "Generated send sequences with virtual handler durations; oracle = for every notification n (and initialize) and every message m sent after n's API call returned, end(n) precedes start(m) on the receiving side's logical clock.",
		LevelNote:   "Trusts the recording middleware (installed first, so it brackets the whole handler) and synctest quiescence as the definition of 'the call has been sent'.",
		Technique:   "property-based testing (rapid) with virtual time (testing/synctest), history invariant over recorded handler intervals",
		DesignRef:   "DESIGN.md section 3, C03",
		Runs: []run{
			{Test: "TestC03_Order", Quick: 600, Thorough: 48000},
			{Test: "TestC03_Init", Quick: 300, Thorough: 24000, Shards: 4},
			{Test: "TestC03_Multi", Quick: 500, Thorough: 40000, Shards: 8},
			{Test: "TestC03_Batch", Quick: 1500, Thorough: 100000, Shards: 4},
			{Test: "TestC03_Senders", Quick: 1500, Thorough: 100000, Shards: 4},
		},
	})
}
