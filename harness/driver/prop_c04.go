package main

func init() {
	register(prop{
		ID: "C04", Pkg: "c04",
		Rule:        "TestC04_RawCaller: a raw ndjson peer calls parked tools of a real server under ids it chooses (small and > 2^53 integers, numeric-looking strings) and cancels by id: exactly the handler of that id (same JSON type, exact value) is cancelled. e2e: rapid draws (direction, link in {in-memory, io pipe, SSE, streamable stateful +-event store/JSON}, <=24 steps over call(cancel|deadline ctx) / cancel(i) / release(i) / race(i: response and cancellation in one step) / sleep / block / unblock (a parked notification handler holds the peer's dispatcher so later calls are cancelled before dispatch)); handlers park on gates and record whether their context was cancelled. nested: the cancelled call is a server->client request made inside a request handler, over every link incl. streamable clients without a standalone stream. stall: a scripted peer that stops/resumes draining the transport, late responses, cancellation while stalled. Oracle: zero virtual time between cancellation and return, context error, exactly the cancelled request's handler cancelled, exactly one notice per cancelled id, others untouched, fresh calls work both ways. Non-trivial = >=2 calls with a strict non-empty subset cancelled (e2e) or a cancellation while the transport is stalled (stall); distinct by step-kind string.",
		Assumptions: []string{"virtual time (testing/synctest): 'promptly' means zero elapsed virtual time at quiescence", "in the race step either the real response or the context error is accepted for that call"},
		LevelText:   "Generated cancellation schedules over real endpoints (precision: only the matching handler's context ends) and over a scripted stalling transport (promptness although the notice cannot be delivered; notices name exactly the cancelled ids; helper goroutines gone after the 5s budget).",
		LevelNote:   "Trusts handler-side recording through gates and synctest quiescence.",
		Technique:   "schedule-generating property-based testing (rapid + testing/synctest) with handler-side observation and a scripted transport",
		DesignRef:   "DESIGN.md section 3, C04",
		Runs: []run{
			{Test: "TestC04_E2E", Quick: 700, Thorough: 40000},
			{Test: "TestC04_Stall", Quick: 1500, Thorough: 75000},
			{Test: "TestC04_RawCaller", Quick: 2000, Thorough: 100000},
			{Test: "TestC04_Nested", Quick: 600, Thorough: 40000},
		},
	})
}
