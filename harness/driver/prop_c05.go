package main

func init() {
	register(prop{
		ID: "C05", Pkg: "c05",
		Rule:        "TestC05_Links: a real Client and Server over every link kind (in-memory, io pipe, legacy SSE, stateful streamable in 7 option combinations, stateless streamable), 3 protocol versions, parked subscriptions/listen; 2-25 steps of client calls (whose handlers may first call the client), server calls outside handlers, notifications, release, sleeps up to 40 s, Close from either side (single or two concurrent), at most one link cut (pipe end closed, raw connection closed, HTTP exchanges failing with open bodies cut or left silent); judged: every Close/Wait/call returns, a local Close does not cancel running handlers, no dispatch after Close returned, sessions gone from the Server, no SDK goroutine left (bubble exit plus a stack scan for client transport goroutines after Close). TestC05_Seq/Race: rapid draws <=30 steps over client call / server call / nested call (handler calls the peer) / notifications / release(i) / Close(side) / Wait(side) / write failures of one side / peer vanishing / late requests from the peer / sleep, optional server keep-alive, transports that start refusing one side's notifications with a per-message rejection; real ends over an in-memory byte pipe; handlers park on gates and record context cancellation; every Close/Wait/call the script starts must return after the wind-down (all gates released, both sides closed, 30s of virtual time), the server must list no session and the bubble must end with no goroutine left. seq waits for quiescence after each step, race lets the scheduler interleave steps (-race in the thorough tier). Non-trivial = Close issued while >=1 handler is parked or >=1 call is pending; distinct by step-kind string.",
		Assumptions: []string{"handlers return when released or when their context is cancelled (the property's proviso)", "clause (b) (running handlers not cancelled by a local Close, transport closed after them) is asserted only while no fault has been injected", "client-side session bookkeeping (Client.sessions) is not observable through the public API and is not checked"},
		LevelText:   "Generated shutdown schedules with traffic in both directions and injected faults; liveness of every Close/Wait and absence of leftovers are decided by the synctest bubble (deadlock / blocked goroutines at exit are reported).",
		LevelNote:   "Trusts handler-side recording and synctest; deadlocks through plain mutexes show as the wall-clock watchdog (inconclusive), not as violations.",
		Technique:   "schedule- and fault-generating property-based testing (rapid + testing/synctest), leak detection by bubble exit; race-detector variant",
		DesignRef:   "DESIGN.md section 3, C05",
		Runs: []run{
			{Test: "TestC05_Seq", Quick: 1500, Thorough: 30000},
			{Test: "TestC05_Race", Quick: 700, Thorough: 12000, Race: true},
			{Test: "TestC05_Links", Quick: 1500, Thorough: 30000},
		},
	})
}
