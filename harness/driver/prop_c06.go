package main

func init() {
	register(prop{
		ID: "C06", Pkg: "c06",
		Rule:        "TestC06_StatelessBatch: legacy JSON-RPC batches of 1-5 messages (initialize, initialized, ping, tools/call, tools/list in any order) POSTed to a stateless streamable endpoint: when the batch carries an initialize, a tools/call placed before it is not served and that initialize is not refused as a duplicate. TestC06_Race: right after initialize a raw peer writes notifications/initialized together with 1-4 logging/setLevel calls (handled concurrently), then repeats the notification: the initialized handler runs exactly once however the state updates interleave (scheduler-dependent: mostly a thorough-tier check). rapid draws sequences (<=20) over lifecycle and feature methods x per-request _meta variants (none, complete triple, no clientInfo, missing/invalid clientCapabilities, invalid clientInfo, unsupported newer version, non-string version, legacy version string) x initialize params variants (5 supported + unknown versions, null, absent, wrong-typed, array); raw ndjson peer over an io pipe; oracle = reference lifecycle machine + receiving middleware log + handler counters + InitializeParams()/log-level probes. TestC06_HTTP sends the 2026-07-28 requests (all metadata variants, mirrored in the Mcp-* headers) to a stateless streamable endpoint. Non-trivial = a feature request before an accepted initialize, a failed initialize followed by a feature request, or a sequence mixing _meta and legacy traffic; distinct by (method, meta, init-variant) sequence.",
		Assumptions: []string{"stdio-like transport (io pipe) which serves both legacy and 2026-07-28 requests", "once a 2026-07-28 request has been served the session is no longer 'a legacy-protocol session': legacy gating is then not asserted (ping, discover and metadata checks still are)", "when metadata is both incomplete and names an unsupported version either mandated code is accepted"},
		LevelText:   "Generated message histories against a reference lifecycle state machine; 'reached server-side handlers' is observed by a receiving middleware and handler counters, state changes by InitializeParams() and a log-level probe.",
		LevelNote:   "Trusts the reference machine in harness/c06 (written from the property text).",
		Technique:   "stateful property-based testing (rapid) against a reference lifecycle model, raw wire peer",
		DesignRef:   "DESIGN.md section 3, C06",
		Runs: []run{
			{Test: "TestC06_Lifecycle", Quick: 3000, Thorough: 120000},
			{Test: "TestC06_StatelessBatch", Quick: 2000, Thorough: 60000, Shards: 8},
			{Test: "TestC06_Race", Quick: 2000, Thorough: 150000},
			{Test: "TestC06_HTTP", Quick: 1500, Thorough: 45000, Shards: 4},
		},
	})
}
