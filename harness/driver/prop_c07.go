package main

func init() {
	register(prop{
		ID: "C07", Pkg: "c07",
		Rule:        "TestC07_Matrix enumerates requested version (default, 5 supported, unknown older/newer, garbage, 2026-07-27) x link (in-memory and io pipe each with all/legacy/legacy-old/none advertised subsets, SSE, streamable stateful and stateless x JSON x event store, stateful with GetSessionID returning \"\") x earlier session on the same Server (none, one over an in-memory link, one over a stateful HTTP link) = 660 cells; TestC07_Sample re-samples the matrix with rapid adding free dimensions (0-2 earlier sessions of the same Server over arbitrary links and versions, left open or closed, list-changed handler => subscriptions/listen on connect, keep-alive, tools capability without listChanged, DisableStandaloneSSE, tool argument, extra tools). TestC07_Raw drives each SDK side alone with arbitrary version strings on the wire (raw client -> server initialize; scripted server answering the SDK client) and requires that only supported versions are ever settled on. TestC07_HTTPDiscover puts the SDK client's streamable HTTP transport in front of a scripted endpoint that refuses the server/discover POST at the HTTP level (16 statuses x plain/empty/html/JSON-RPC-error bodies) and serves the initialize handshake: the client must fall back, negotiate the answered version and list and call at once. Non-trivial = negotiated != requested, or the discover->initialize fallback happened; distinct by (requested, link).",
		Assumptions: []string{"real Client and Server ends over in-memory links (memio/memhttp) in a synctest bubble", "for custom ProtocolVersionSupporter subsets only the modern/legacy split is asserted: its documented contract is to filter server/discover", "teardown leftovers are counted (class teardown_leftover), not judged: that is C05"},
		LevelText:   "Exhaustive enumeration of the configuration matrix plus random re-sampling with free dimensions; oracle = negotiated version supported by SDK and transport, equals requested when mutually supported, fallback used exactly when discovery cannot yield a modern version, ListTools/CallTool succeed right after Connect.",
		LevelNote:   "Trusts the harness' transcription of the SDK's version list and transport rules (wire.Config.TransportSupports) and the server-side middleware that records which handshake was used.",
		Technique:   "exhaustive configuration enumeration + property-based sampling (rapid) with real endpoints over in-memory transports",
		DesignRef:   "DESIGN.md section 3, C07",
		Exhaustive:  true,
		Runs: []run{
			{Test: "TestC07_Matrix"},
			{Test: "TestC07_Sample", Quick: 400, Thorough: 40000},
			{Test: "TestC07_Raw", Quick: 1500, Thorough: 200000, Shards: 4},
			{Test: "TestC07_HTTPDiscover", Quick: 1500, Thorough: 100000, Shards: 4},
		},
	})
}
