package main

func init() {
	register(prop{
		ID: "C08", Pkg: "c08",
		Rule:        "rapid draws (protocol version with/without priming events, <=30 steps over: POST a call whose handler writes on command, write a notification on stream s, finish stream s, cut the attached exchange, resume stream s with Last-Event-ID = any event id seen so far on it; the same for the standalone stream with notifications issued outside any request). Ground truth W(stream) is the append order recorded by a wrapping EventStore; every SSE byte is read by an independent parser. After each step (quiescence; the race variant lets steps interleave): every event id carries W[index] on every delivery and replay; indices on an exchange are consecutive starting right after the resume point; an attached, never-cut exchange has received everything written so far; 409 only while another exchange owns the stream; finally the response is obtained by resuming each finished stream after its original exchange is gone. Non-trivial = >=1 cut with >=1 message written while detached followed by a resume; distinct by (version, step-kind string).",
		Assumptions: []string{"stateful StreamableHTTPHandler with MemoryEventStore (default size: nothing is purged), protocol versions before 2026-07-28", "a GET without Last-Event-ID (fresh standalone stream) is judged only through the ids it carries", "a stream on which no event id was ever seen (no priming, cut before the first write) cannot be resumed by construction"},
		LevelText:   "Generated disconnect/resume schedules against an append-log model with an independent SSE reader; exactly-once, order and id stability are equalities over indices.",
		LevelNote:   "Trusts the wrapping EventStore as ground truth of write order and memhttp's byte-exact recording of each response.",
		Technique:   "fault-schedule property-based testing (rapid + testing/synctest) against an append-log reference model, independent SSE parser",
		DesignRef:   "DESIGN.md section 3, C08",
		Runs: []run{
			{Test: "TestC08_Seq", Quick: 1500, Thorough: 60000},
			{Test: "TestC08_OneP", Quick: 1000, Thorough: 40000},
			{Test: "TestC08_Long", Quick: 3, Thorough: 48, Shards: 16},
			{Test: "TestC08_Race", Quick: 800, Thorough: 24000, Race: true},
		},
	})
}
