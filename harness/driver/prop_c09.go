package main

func init() {
	register(prop{
		ID: "C09", Pkg: "c09",
		Rule:        "TestC09_E2E: the real SDK client against the real stateful SDK server (with/without MemoryEventStore, priming and non-priming versions, JSON mode as control), 1-4 calls (some concurrent) whose handlers emit uniquely tagged notifications with pauses, out-of-request notifications, handler-closed streams; per logical stream a plan of body cuts (after k complete events, at 0 bytes or inside the next event, clean EOF or read error, lazy or eager) and reconnect outcomes (ok / transport error / 503); judged: real result, per-call notifications exactly once in order, must-succeed inside the retry budget, every call returns, nothing surfaced that was not completely sent, no goroutine left. rapid draws (number of progress messages before the response, events with/without ids, priming event, retry field, CRLF framing, first body cut at ANY byte offset by read error or clean EOF, then a sequence of reconnect outcomes in {ok (replay after the presented Last-Event-ID, possibly cut again), transport error, 502/503, 404}, and what happens afterwards: ok or failing for ever); real mcp.Client + StreamableClientTransport against a scripted fake server over the in-memory HTTP bridge under virtual time. Oracle: progress handler sees 1..k exactly once in order and only messages whose event was completely sent; every reconnect presents the id of the last completely received event; CallTool returns the real result when the stream is resumable and a reconnect succeeds, an error (never a hang) otherwise. Non-trivial = cut strictly inside an event, or >=2 cuts, or a failed reconnect before a successful one; distinct by (shape, cut kinds, outcome kinds, offset class).",
		Assumptions: []string{"the server side is harness code speaking the streamable wire protocol (independent SSE writer)", "back-off jitter is random but bounded; the harness waits 15 virtual minutes", "TestC09_Standalone covers the standalone GET stream (log notifications with event ids, cuts and reconnects); streams without event ids are not judged there (the SDK documents that messages may be missed)"},
		LevelText:   "Generated cut offsets / termination kinds / reconnect outcome sequences against a model of what was completely delivered; liveness (the call returns) decided under virtual time.",
		LevelNote:   "Trusts the fake server and memhttp's byte-exact delivery; jittered back-off makes timing (not outcomes) non-deterministic.",
		Technique:   "fault-injection property-based testing (rapid + testing/synctest) with a scripted peer and a delivery model",
		DesignRef:   "DESIGN.md section 3, C09",
		Runs: []run{
			{Test: "TestC09_Call", Quick: 2500, Thorough: 240000},
			{Test: "TestC09_Standalone", Quick: 800, Thorough: 80000},
			{Test: "TestC09_E2E", Quick: 2000, Thorough: 40000},
		},
	})
}
