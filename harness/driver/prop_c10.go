package main

func init() {
	register(prop{
		ID: "C10", Pkg: "c10",
		Rule:        "rapid draws (stateful/stateless, SSE/JSON responses, event store on/off, 1..4 sessions x 1..5 concurrent tools/call requests using the SAME JSON-RPC ids in every session, which sessions hold a standalone GET stream, and <=40 emission steps: notification in the request's context, notification with a detached context, finish (response), notification after the response with the request's values); each message carries the tag s<i>r<j> and how it was issued. Every byte of every HTTP response is attributed to the (session, request) that opened it. Oracle: an exchange carries only its own tag and exactly one response with its own id; a standalone stream carries only its session's tags, never a response, and in SSE mode never a message issued while its request was being handled; JSON exchanges carry only the response. Non-trivial = >=2 sessions with overlapping request lifetimes and equal ids; distinct by (mode, calls, standalone, step-kind string).",
		Assumptions: []string{"messages that the SDK rejects (e.g. emitted with a completed request's context) are not required to be delivered anywhere: only misplacement is judged", "server->client requests from handlers are not generated (only notifications); resumption is C08's subject"},
		LevelText:   "Generated multi-session, multi-request emission schedules with identical ids across sessions; placement of every delivered message is checked against its tag by reading all HTTP response bytes with an independent SSE/JSON reader.",
		LevelNote:   "Trusts memhttp's per-exchange byte recording and the tags carried in payloads.",
		Technique:   "schedule-generating property-based testing (rapid + testing/synctest), tagged-message routing invariant; race-detector variant",
		DesignRef:   "DESIGN.md section 3, C10",
		Runs: []run{
			{Test: "TestC10_Seq", Quick: 700, Thorough: 16000},
			{Test: "TestC10_Race", Quick: 300, Thorough: 8000, Race: true},
		},
	})
}
