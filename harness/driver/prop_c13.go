package main

func init() {
	register(prop{
		ID: "C13", Pkg: "c13",
		Rule:        "TestC13_HTTP: a keep-alive client session over the streamable HTTP client transport against a scripted endpoint that answers each ping at once, after a delay below I/2, with headers at once and the body after the ping timed out, or never, in JSON or SSE framing; same reference detector; a surviving session must still serve a manual ping. TestC13_KeepAlive: rapid draws (side, interval, threshold in {-1,0,1,2,3,5}, pattern of <=30 ping outcomes: answered after d<I/2, answered late, never answered, error answer, write rejected, method-not-found, optional explicit Close); scripted peer under virtual time; oracle = reference failure detector giving the exact virtual instant of termination. Non-trivial = a recovery below the threshold or a threshold >=2 reached; distinct by (side, interval, threshold, outcome string).",
		Assumptions: []string{"virtual clock (testing/synctest); answers exactly at I/2 are not generated (two timers at one instant)", "peer is scripted (memio.ScriptConn)"},
		LevelText:   "Generated ping-outcome patterns against a reference failure detector with exact virtual-time equality for the closing instant, plus no-ping-after-close and clean bubble exit (no timer/goroutine left).",
		LevelNote:   "Trusts the reference detector in harness/c13 and synctest's clock.",
		Technique:   "property-based testing (rapid) with virtual time (testing/synctest) against a reference failure-detector model",
		DesignRef:   "DESIGN.md section 3, C13",
		Runs: []run{
			{Test: "TestC13_KeepAlive", Quick: 2500, Thorough: 120000},
			{Test: "TestC13_HTTP", Quick: 1500, Thorough: 60000},
			{Test: "TestC13_Stdio", Quick: 400, Thorough: 20000, Shards: 4},
		},
	})
}
