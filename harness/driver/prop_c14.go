package main

func init() {
	register(prop{
		ID: "C14", Pkg: "c14",
		Rule:        "rapid draws (Authorization header shapes incl. several headers, verifier outcome, required/granted scope sets, expiration relative to the bubble's fake now within +-2ns of exp+skew=now, skew, AllowMissingExpiration, nil options, metadata URL); oracle = reference admission predicate + status-by-cause + independently parsed WWW-Authenticate; non-trivial = exactly one conjunct false, or expiry within 2ns of the boundary; distinct by the full case tuple. TestC14_Enum additionally enumerates the boundary product (counter exhaustive_cells).",
		Assumptions: []string{"time.Now is the synctest fake clock (exact boundaries)", "scope tokens and URLs are drawn from RFC 6749 scope-token characters (no quote/backslash), so %q quoting is plain", "when scope and expiry both fail either 403 or 401 is accepted (statement: 'according to the cause')"},
		LevelText:   "Random and exhaustively enumerated inputs against a reference predicate for 'admit iff header, verifier, scopes and expiry all check out'; exact virtual clock makes the +-1ns expiry boundary decidable.",
		LevelNote:   "Trusts the reference predicate in harness/c14 and net/http/httptest; verifier is a scripted stub.",
		Technique:   "property-based testing (rapid) + exhaustive boundary enumeration against a reference predicate, virtual clock",
		DesignRef:   "DESIGN.md section 3, C14",
		Exhaustive:  true,
		Runs: []run{
			{Test: "TestC14_Bearer", Quick: 15000, Thorough: 1500000},
			{Test: "TestC14_Enum"},
		},
	})
}
