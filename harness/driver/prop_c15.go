package main

func init() {
	register(prop{
		ID: "C15", Pkg: "c15",
		Rule: "rapid draws a whole authorization scenario for auth.AuthorizationCodeHandler.Authorize whose http.Client is a recording in-memory RoundTripper (no sockets): MCP server URL (https hosts with/without path and port, http loopback names incl. [::1]); 401/403 with WWW-Authenticate challenges rendered by an independent RFC 9110 serialiser (with/without resource_metadata, scope, error, realm with escaped quotes and commas, several challenges per line and several lines, token vs quoted values, key/scheme case, optional malformed line); resource_metadata on the canonical, a custom, a foreign-https, a loopback or an unsafe (http non-loopback, javascript:, data:, ftp, unparsable) URL; per protected-resource-metadata location (challenge, path-inserted, root) and per authorization-server metadata location (RFC 8414 root/insert, OIDC root/insert/append; several issuers incl. trailing-slash, path and loopback issuers and the legacy origin issuer) an outcome in {unlisted 404, other 4xx, 500, wrong content type, unparsable JSON, valid document, defective document}; defective documents: resource other/empty/extended/origin, authorization_servers javascript:/data:/vbscript:/http non-loopback/empty, issuer other/empty/extended, PKCE absent/empty/plain-only, script scheme or http non-loopback URL in any of nine URL fields; a foreign resource's document names an attacker issuer whose own metadata is entirely valid; DCR responses {201, 201 public, 200, 400, garbage, no client_id, 500}; fetcher result state {echoed, reversed, lower-cased, truncated, empty, error} x iss {as advertised, matching, absent, other, trailing-slash variant} x advertised RFC 9207 support; token endpoint {200 JSON, 200 form, 400, 500, garbage}; registration configuration (all 7 combinations of CIMD / pre-registered / DCR), pre-registered issuer binding {none, same, same modulo slash, other}; optionally a token source installed beforehand by a priming authorization. 0-3 defects are injected into an otherwise clean scenario. Oracle = invariants I1-I5 over the recorded history plus a vacuity guard (a scenario without any defect must be authorised and yield the served access token). Non-trivial = at least one unsafe or mismatching document (or unsafe challenge location) was on the discovery path actually walked; distinct by the set of (location kind, defect kind).",
		Assumptions: []string{
			"PKCE 'advertised' is read as code_challenge_methods_supported being non-empty (property text); a plain-only list is generated but either outcome is accepted",
			"identifiers differing only by one trailing slash (resource, issuer, iss) are generated but either outcome is accepted, as the SDK documents issuer comparison modulo one trailing slash",
			"the 2025-03-26 fallbacks are accepted as documented: the MCP server's origin as issuer, and default /authorize /token /register endpoints only when every authorization-server metadata request was answered 4xx",
			"the universe never redirects; script-scheme checks cover authorization_servers and the nine RFC 8414 URL fields the SDK documents (URL fields of protected-resource metadata that the flow never uses are not generated)",
			"a 403 without error=insufficient_scope is documented to be left alone (Authorize returns nil without a flow); only the invariants apply there",
		},
		LevelText: "Generated OAuth discovery/registration/authorization/token scenarios against history invariants restated from the property text and RFC 9728/8414/9207 (permitted locations, identifier match, PKCE, script schemes, state and iss rules, issuer-bound credentials, no token after failure), with every request of the handler recorded by an in-memory transport.",
		LevelNote: "Trusts the reference location/validity functions in harness/c15, net/url and encoding/json; the fetcher and all servers are scripted stubs. Native fuzz target (thorough tier) for the WWW-Authenticate parser: no panic on arbitrary bytes, round trip of challenges written by an independent serialiser.",
		Technique: "property-based testing (rapid) with a recording in-memory HTTP universe and history invariants; native fuzzing of the challenge parser (thorough)",
		DesignRef: "DESIGN.md section 3, C15",
		Runs: []run{
			{Test: "TestC15_Flow", Quick: 20000, Thorough: 300000},
			// Same round trip as the fuzz target, as replayable rapid scripts (test "challenge").
			{Test: "TestC15_Overlap", Quick: 3000, Thorough: 100000, Shards: 4},
			{Test: "TestC15_Challenge", Quick: 20000, Thorough: 200000, Shards: 4},
			{Test: "FuzzC15_ParseWWWAuthenticate", Fuzz: true, FuzzTime: "60s"},
		},
	})
}
