package main

func init() {
	register(prop{
		ID: "C16", Pkg: "c16",
		Rule: "rapid draws a script = one tool + 1..5 calls, run against a real mcp.Server and mcp.Client over mcp.NewInMemoryTransports (protocol 2025-06-18). " +
			"Family 'explicit': a generated input schema (object; required/optional properties, defaults on optional non-object properties, string/integer enums, const, minimum/maximum, minLength/maxLength, nested objects to depth 3, arrays with items and minItems/maxItems, additionalProperties absent/false/true/schema) and an optional generated output schema (object, array or scalar root), handed to the SDK as *jsonschema.Schema, map[string]any or json.RawMessage, registered with mcp.AddTool[map[string]any, any] (optionally twice, optionally with a shared SchemaCache). " +
			"Family 'gotype': 13 fixed Go In/Out pairs registered with the generic mcp.AddTool (omitempty, pointers, nested structs, slices, maps, [2]int, int8/uint8/uint16 bounds, any fields, jsonschema description tags, pointer In; struct, pointer, slice, map, int, string, float64 and undeclared outputs; one pair with explicit input/output schemas carrying defaults, enums and bounds over typed structs); arguments are built from the schemas the SDK publishes for them. " +
			"Arguments: valid by construction from the schema, then 0..2 mutations at a drawn node (drop a required key, wrong type incl. 1.5 for integer, below minimum/above maximum, too short/long string, value outside enum/const, too few/many items, extra key, null, non-object root incl. null, omitted arguments). Handler outputs: valid by construction, mutated with probability 0.4, with and without the handler's own Content, returned as decoded value or json.RawMessage (explicit) or as a Go value of type Out (gotype; nil pointers, nil slices and nil maps included). " +
			"Oracle = the package's own mini JSON-Schema validator and defaults model evaluated on the schema JSON the client receives from tools/list: handler ran exactly once <=> (arguments + defaults) valid, and then the value it received is JSON-equal to arguments + defaults (for Go In types: to an independent encoding/json decoding of them); invalid => IsError result, no protocol error, handler not run. Output (when a schema is published): valid => success, structured content JSON-equal to the handler's output + defaults and valid under the published schema, a text block with that JSON when the handler gave no content, the handler's own content kept otherwise; invalid => the call fails; any structured content returned must validate. " +
			"non-trivial = some call of the script has invalid arguments whose shallowest violation is at nesting depth >= 2, or a default was actually applied (input, or output of a successful call), or a non-object handler output reached output validation; distinct by the full script.",
		Assumptions: []string{
			"the oracle's validator supports exactly type (string or list), properties, required, enum, const, minimum, maximum, minLength, maxLength, items (single schema), minItems, maxItems, additionalProperties, not, boolean schemas; it panics on any other keyword in a published schema rather than ignoring it",
			"'defaults applied' is asserted only where jsonschema-go's documentation fixes it: defaults of missing NON-required properties of objects that are present, recursively through present optional object properties. Excluded by construction (and skipped by the oracle if ever met, class skipped_ambiguous_defaults): a default on or below a required property (the library ignores it and does not descend), an absent optional object whose descendants have defaults (the library materialises it, which can even make {} fail a nested 'required'), object-valued defaults with nested defaults, defaults below items/additionalProperties, a default on the root",
			"numbers are small integers or halves (exact in float64); integer-typed positions never receive 1.0-style floats; 1.5 is used as the wrong-type value for integers",
			"\"arguments\": null and absent arguments are read as {} (applySchema documentation; fixed finding F10)",
			"an untyped nil output of an Out=any handler means 'no structured output' and is not generated; for a nil pointer output either null or the zero value of the element type is accepted, for a null output under an object-rooted schema either null or {} (both coercions are documented in the SDK source), so mutants touching only these coercions are not targeted",
			"the handler never returns an error, IsError or InputRequests; string alphabets avoid <, >, & (HTML escaping) but include multi-byte and astral runes so that lengths are counted in code points",
			"for Go In types 'receives exactly those values' means equality with encoding/json's decoding of (arguments + defaults) into the same type; extra keys that differ from a field only by case are not generated",
		},
		LevelText: "Random schemas, arguments and handler outputs against an independent mini JSON-Schema validator and defaults model evaluated on the published schemas, through a real client/server pair; decides 'handler runs iff arguments+defaults are valid, sees exactly them, and only schema-valid output is returned'.",
		LevelNote: "Trusts the mini validator/defaults model in harness/c16 (about 300 lines) and encoding/json; restricted to the keyword set and the defaults region listed in the assumptions.",
		Technique: "property-based testing (rapid) with a reference validator (differential on accept/reject and on the value seen / returned)",
		DesignRef: "DESIGN.md section 3, C16",
		Runs: []run{
			{Test: "TestC16_Explicit", Quick: 2000, Thorough: 25000},
			{Test: "TestC16_GoType", Quick: 1500, Thorough: 20000},
		},
	})
}
