package main

func init() {
	register(prop{
		ID: "C17", Pkg: "c17",
		Rule:        "rapid draws a script: page size 1..7, legacy protocol version, initial sets and up to 40 operations over tools/prompts/resources/resource templates (add, replace, remove incl. absent ids and 'remove the item the traversal's cursor points at', start a traversal with nil or empty-cursor params, advance one traversal by one page, fork a new traversal from any previously issued cursor, hostile cursor of 11 classes: truncated, bit-flipped text, bit-flipped gob, arbitrary bytes, base64url of garbage, huge gob lengths, huge length spliced into a valid token, forged token for an arbitrary id, cursor of another feature kind, other base64 alphabets/padding, gob of other types). A real Server (ServerOptions.PageSize) and ClientSession over NewInMemoryTransports run it inside a synctest bubble; every traversal is finished on the quiescent server, then manual paging, the model's sorted ids and the client iterators (from the start and from a mid cursor) are compared on the legacy session (all kinds) and on a 2026-07-28 session (one kind). non-trivial = a finished traversal with >= 1 effective mutation of its kind between its first and last page, or one fetched with a cursor whose item had been removed, or a hostile cursor was sent; distinct by page size + executed operation trace + per-traversal (pages, mutations, stale) + attack class/outcome. TestC17_Alphabet pages the full alphabet of every kind at page sizes 1..7; TestC17_CursorSeeds runs the fuzz target's oracle over its fixed hostile seed list (counter cursor_seeds).",
		Assumptions: []string{"the harness is the only mutator and is sequential: each Add*/Remove* returns before the next request is sent, so every page is checked against the model at one logical instant", "a replaced feature keeps its id and counts as continuously registered; the listed description must be the registered revision", "a cursor is 'malformed' iff it is not base64url (encoding/base64.URLEncoding) of a gob stream that decodes into a struct with a string field LastUID (the harness' own type); well-formed tokens the server did not issue are accepted with either -32602 or a valid page", "pages that carry a next cursor must hold exactly PageSize items (ServerOptions.PageSize documentation + task statement)", "ids use byte-wise ascending order (sort.Strings) as the one stable order"},
		LevelText:   "Random add/replace/remove histories interleaved with several page-by-page traversals, forks from re-used cursors and corrupted cursors, checked against a reference model of registration intervals: exactly-once for items registered throughout, no duplicates, one ascending order, empty final cursor, -32602 for malformed cursors, iterator == manual paging.",
		LevelNote:   "Trusts the reference model and cursor classifier in harness/c17 (encoding/gob + encoding/base64 of the standard library); mutations happen between requests, not concurrently with them; in-memory transport only.",
		Technique:   "model-based stateful property testing (rapid) in a synctest bubble; native fuzz target for the cursor decoder in the thorough tier",
		DesignRef:   "DESIGN.md section 3, C17",
		Runs: []run{
			{Test: "TestC17_Paging", Quick: 1000, Thorough: 12000},
			{Test: "TestC17_Alphabet"},
			{Test: "TestC17_CursorSeeds"},
			{Test: "TestC17_Classifier", Quick: 5000, Thorough: 5000, Shards: 1},
			{Test: "FuzzC17_Cursor", Fuzz: true, FuzzTime: "60s"},
		},
	})
}
