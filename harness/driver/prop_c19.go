package main

func init() {
	register(prop{
		ID: "C19", Pkg: "c19",
		Rule: "rapid draws JSON-RPC messages as plain data (ids: strings incl. empty/unicode/escape-heavy, int64 over the whole range with +-2^53+-1 and Min/MaxInt64 boundaries; any method string; params/results/error data as harness-written JSON text up to depth 3 with big/odd number tokens and unicode; error codes over int64), MCP values by a struct generator (all 7 Content kinds with _meta, annotations, nested tool_result content and embedded resources; CallToolResult, GetPromptResult, ReadResourceResult, CreateMessage(WithTools)Params/Result, the 5 list results; nil, empty and non-empty slices), framing scripts (ndjson single lines and batches in both directions over mcp.IOTransport; SSE/JSON bodies formatted by the harness and read by the SDK's streamable client; a real server answering a raw peer over ndjson and over the streamable handler) and arbitrary/mutated bytes. non-trivial = an id outside +-2^53, or content nesting depth >= 2 (nested tool_result content / embedded resource), or a nil-slice result (for test bytes: input accepted by the decoder that is not one of the harness's valid renderings); distinct by the full case.",
		Assumptions: []string{
			"the independent reader is encoding/json with json.Number, exact (case-sensitive) member lookup and last-wins duplicates; generated wire messages have no duplicate members, no lone surrogates and no invalid UTF-8",
			"valid wire messages are JSON-RPC 2.0 requests/notifications (params object or array), and responses with exactly one of result (any value, null included) and error{code,message[,data not a bare null]}; integer ids are canonical int64 decimals",
			"nil and empty slices/maps/[]byte are equated when comparing a value with its unmarshalled marshalling (the SDK's marshallers document that they emit []/\"\"/{} for nil); a nil list marshalled directly with json.Marshal may be null, the non-null clause for nil lists is checked on what a real server writes",
			"ndjson lines are written without interior line breaks and without trailing blanks; batches only where the transport allows them (no negotiated version >= 2025-06-18)",
			"unexported mcp.writeEvent/scanEvents are reached through the streamable server handler (writer) and the streamable client connection (scanner); the legacy SSE transport and client-originated results (roots/list, sampling results) are only covered by direct marshalling",
		},
		LevelText: "Random messages, protocol values, framing scripts and byte strings against an independent encoding/json reading of the same bytes: encode->decode->encode fixpoint and field-wise equality, wire->decode->encode preservation of id token type and digits, method, params, result and error triple, case-sensitivity by re-spelled and decoy members, marshal->unmarshal equality plus required-member presence for every content kind and list result, payload preservation through ndjson (single/batch, both directions), harness-formatted SSE/JSON bodies read by the SDK client and server-written SSE/JSON/ndjson read by an independent parser, and no panic on arbitrary bytes (native fuzzing in the thorough tier).",
		LevelNote: "Trusts encoding/json as the reference reader, the harness's JSON/SSE writers and memhttp.ParseSSE; SSE writer/scanner are only reached through exported transports.",
		Technique: "property-based testing (rapid) with round-trip, metamorphic (case re-spelling) and differential (segmentio decoder vs encoding/json) oracles; native go fuzzing of the byte-level decoders in the thorough tier",
		DesignRef: "DESIGN.md section 3, C19",
		Runs: []run{
			{Test: "TestC19_Msg", Quick: 20000, Thorough: 100000},
			{Test: "TestC19_Wire", Quick: 20000, Thorough: 100000},
			{Test: "TestC19_Value", Quick: 12000, Thorough: 60000},
			{Test: "TestC19_NDJSON", Quick: 8000, Thorough: 30000},
			{Test: "TestC19_SSEClient", Quick: 8000, Thorough: 30000},
			{Test: "TestC19_Serve", Quick: 4000, Thorough: 15000},
			{Test: "TestC19_Bytes", Quick: 40000, Thorough: 200000},
			{Test: "FuzzC19_DecodeMessage", Fuzz: true, FuzzTime: "60s"},
			{Test: "FuzzC19_ContentUnmarshal", Fuzz: true, FuzzTime: "60s"},
		},
	})
}
