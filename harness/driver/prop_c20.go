package main

func init() {
	register(prop{
		ID: "C20", Pkg: "c20",
		Rule:        "rapid-generated op sequences (Open/Append/After/SetMaxBytes/SessionClosed over 3 sessions x 3 streams, payload sizes 0..3x limit) compared after every step with an append-log model through After at every index; non-trivial = an eviction happened and a later After addressed an index at or below the eviction point; distinct = op/size-class string. The conc test counts a case non-trivial when the appended volume exceeds the limit with >=2 concurrent readers.",
		Assumptions: []string{"public MemoryEventStore API only", "callers do not mutate a payload slice after Append (the store keeps the slice)", "bounds: <=40 ops, 3x3 streams; concurrent variant is scheduler-driven (race detector in the thorough tier)"},
		LevelText:   "Model-based random exploration: every generated history is compared step by step with an append-log reference model through the public API; a race-detector variant drives concurrent appenders/readers/limit changes. Search, not proof: bounded histories.",
		LevelNote:   "Trusts the reference model in harness/c20 (append log + monotone eviction point) and Go's race detector for the concurrent variant.",
		Technique:   "stateful property-based testing (rapid) against a reference model; race-detector stress",
		DesignRef:   "DESIGN.md section 3, C20",
		Runs: []run{
			{Test: "TestC20_Seq", Quick: 3000, Thorough: 240000},
			{Test: "TestC20_Conc", Quick: 600, Thorough: 9000, Race: true, Shards: 8},
		},
	})
}
