package main

import "sort"

// props is filled by the init functions of the prop_cNN.go files (one per property).
var props []prop

func register(p prop) {
	props = append(props, p)
	sort.Slice(props, func(i, j int) bool { return props[i].ID < props[j].ID })
}

// notApplicable lists properties that are deliberately not claimed (id, reason).
var notApplicable = [][2]string{}

// hookCommits lists /repo commits that add build-tag guarded hooks (none are needed).
var hookCommits = []string{}

func findProp(id string) *prop {
	for i := range props {
		if props[i].ID == id {
			return &props[i]
		}
	}
	return nil
}
