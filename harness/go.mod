module github.com/modelcontextprotocol/go-sdk/verif

go 1.25.0

require (
	github.com/google/jsonschema-go v0.4.3
	github.com/modelcontextprotocol/go-sdk v0.0.0
	pgregory.net/rapid v1.3.0
)

require (
	github.com/segmentio/asm v1.1.3 // indirect
	github.com/segmentio/encoding v0.5.4 // indirect
	github.com/yosida95/uritemplate/v3 v3.0.2 // indirect
	golang.org/x/oauth2 v0.35.0
	golang.org/x/sync v0.20.0 // indirect
	golang.org/x/sys v0.41.0 // indirect
	golang.org/x/time v0.15.0 // indirect
)

replace github.com/modelcontextprotocol/go-sdk => /repo
