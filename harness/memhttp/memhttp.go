// Package memhttp carries HTTP exchanges in memory: an http.RoundTripper that
// calls an http.Handler directly, with a streaming response body, exact
// recording of every byte each response carried, and scripted disconnects.
// No sockets, no wall-clock time: usable inside synctest bubbles.
package memhttp

import (
	"bytes"
	"context"
	"errors"
	"io"
	"net"
	"net/http"
	"sync"
	"time"
)

// ErrCut is what a reader/writer sees after the exchange was cut by the script.
var ErrCut = errors.New("memhttp: connection cut")

// Exchange is the record of one HTTP exchange.
type Exchange struct {
	N      int // sequence number (order of RoundTrip calls)
	Method string
	URL    string
	Header http.Header // request header (copy)
	Body   []byte      // request body
	Tag    string      // free label set by the test via context (see WithTag)

	mu          sync.Mutex
	cond        *sync.Cond
	status      int
	respHeader  http.Header
	committed   bool
	written     bytes.Buffer // every byte the handler wrote to the body
	readOff     int          // bytes consumed by the client-side reader
	handlerDone bool
	quiet       bool  // cut, but the handler's context is only cancelled by its first failing write (CutQuietly)
	cut         bool  // the connection was cut (client went away / script)
	cutErr      error // what client-side reads return after the cut (nil: clean EOF at the cut point)
	cutAt       int   // client may read written[:cutAt] after a cut
	cancel      context.CancelFunc
	panicVal    any
	chunks      []int // client-side reads return at most chunks[i%len] bytes (see Transport.Chunks)
	reads       int
	dieAfter    int // >= 0: the client vanishes (CutQuietly) when the handler makes write number dieAfter+1
	nWrites     int
}

// Status returns the response status (0 until committed).
func (e *Exchange) Status() int {
	e.mu.Lock()
	defer e.mu.Unlock()
	return e.status
}

// RespHeader returns the committed response header.
func (e *Exchange) RespHeader() http.Header {
	e.mu.Lock()
	defer e.mu.Unlock()
	return e.respHeader.Clone()
}

// Written returns every body byte the handler has written so far.
func (e *Exchange) Written() []byte {
	e.mu.Lock()
	defer e.mu.Unlock()
	return append([]byte(nil), e.written.Bytes()...)
}

// HandlerDone reports whether the handler has returned.
func (e *Exchange) HandlerDone() bool {
	e.mu.Lock()
	defer e.mu.Unlock()
	return e.handlerDone
}

// Cut severs the exchange as a vanished client does: the handler's request
// context is cancelled, later handler writes fail, and client-side reads
// return err (after the bytes already written).
func (e *Exchange) Cut(err error) {
	e.mu.Lock()
	if !e.cut {
		e.cut = true
		e.cutErr = err
		e.cutAt = e.written.Len()
	}
	e.cond.Broadcast()
	cancel := e.cancel
	e.mu.Unlock()
	if cancel != nil {
		cancel()
	}
}

// CutQuietly severs the exchange as a client does whose departure the server has not noticed yet: client-side
// reads return err and handler writes fail from now on, but the handler's request context is only cancelled
// once a write of the handler has failed (the server learns of the disconnect through its failing write, as
// it does when the peer's reset arrives with the next segment).
func (e *Exchange) CutQuietly(err error) {
	e.mu.Lock()
	if !e.cut {
		e.cut = true
		e.quiet = true
		e.cutErr = err
		e.cutAt = e.written.Len()
	}
	e.cond.Broadcast()
	e.mu.Unlock()
}

// respWriter mimics net/http's server-side buffering: status, headers and body bytes become visible
// to the client only when the handler calls Flush, when more than 4 KiB are pending, or when the handler
// returns. (A bare WriteHeader does not reach the client by itself.)
type respWriter struct {
	e       *Exchange
	header  http.Header
	status  int          // status chosen by WriteHeader (0: none yet)
	pending bytes.Buffer // written but not yet flushed
	// firstFlushLag: the first explicit Flush returns this long (virtual time) after the data became
	// visible to the client, as a slow link would make it.
	firstFlushLag time.Duration
	flushed       bool
	// lagOnlyAccepted: the lag applies only if the response is a 202 (see Transport.FlushLagOnPOST)
	lagOnlyAccepted bool
}

func (w *respWriter) Header() http.Header { return w.header }

// flushLocked commits the header (if needed) and moves pending bytes to the visible body.
func (w *respWriter) flushLocked() {
	if !w.e.committed {
		st := w.status
		if st == 0 {
			st = http.StatusOK
		}
		w.e.committed = true
		w.e.status = st
		w.e.respHeader = w.header.Clone()
	}
	if w.pending.Len() > 0 && !w.e.cut {
		w.e.written.Write(w.pending.Bytes())
	}
	w.pending.Reset()
	w.e.cond.Broadcast()
}

func (w *respWriter) WriteHeader(status int) {
	w.e.mu.Lock()
	if w.status == 0 && !w.e.committed {
		w.status = status
	}
	w.e.mu.Unlock()
}

func (w *respWriter) Write(p []byte) (int, error) {
	w.e.mu.Lock()
	defer w.e.mu.Unlock()
	if w.status == 0 {
		w.status = http.StatusOK
	}
	if w.e.dieAfter >= 0 && w.e.nWrites >= w.e.dieAfter && !w.e.cut {
		// the client is gone by now; this write is the first to fail
		w.e.cut, w.e.quiet, w.e.cutErr, w.e.cutAt = true, true, ErrCut, w.e.written.Len()
		w.e.cond.Broadcast()
	}
	w.e.nWrites++
	if w.e.cut {
		if w.e.quiet && w.e.cancel != nil {
			w.e.quiet = false
			go w.e.cancel() // the failing write is how the server learns that the client is gone
		}
		return 0, ErrCut
	}
	w.pending.Write(p)
	if w.pending.Len() > 4096 {
		w.flushLocked()
	}
	return len(p), nil
}

func (w *respWriter) Flush() {
	w.e.mu.Lock()
	w.flushLocked()
	first := !w.flushed
	w.flushed = true
	lag := w.firstFlushLag
	if w.lagOnlyAccepted && w.e.status != http.StatusAccepted {
		lag = 0 // (POST responses: only the bodiless 202 acknowledgements are slowed down)
	}
	w.e.mu.Unlock()
	if first && lag > 0 {
		time.Sleep(lag)
	}
}

// body is the client-side response body.
type body struct {
	e      *Exchange
	closed bool
}

func (b *body) Read(p []byte) (int, error) {
	e := b.e
	e.mu.Lock()
	defer e.mu.Unlock()
	for {
		if b.closed {
			return 0, errors.New("memhttp: read on closed body")
		}
		limit := e.written.Len()
		if e.cut && e.cutAt < limit {
			limit = e.cutAt
		}
		if e.readOff < limit {
			if len(e.chunks) > 0 {
				if c := e.chunks[e.reads%len(e.chunks)]; c > 0 && c < len(p) {
					p = p[:c]
				}
				e.reads++
			}
			n := copy(p, e.written.Bytes()[e.readOff:limit])
			e.readOff += n
			// Like net/http for a body whose end is already known, deliver the last bytes
			// together with a clean EOF in one Read call.
			if e.readOff == limit && ((e.cut && e.cutErr == nil) || (!e.cut && e.handlerDone)) {
				return n, io.EOF
			}
			return n, nil
		}
		if e.cut {
			if e.cutErr != nil {
				return 0, e.cutErr
			}
			return 0, io.EOF
		}
		if e.handlerDone {
			return 0, io.EOF
		}
		e.cond.Wait()
	}
}

func (b *body) Close() error {
	e := b.e
	e.mu.Lock()
	b.closed = true
	done := e.handlerDone
	e.cond.Broadcast()
	e.mu.Unlock()
	if !done {
		// Closing the body of an unfinished response drops the connection.
		e.Cut(ErrCut)
	}
	return nil
}

type tagKey struct{}

// WithTag labels the exchange created for a request carrying ctx.
func WithTag(ctx context.Context, tag string) context.Context {
	return context.WithValue(ctx, tagKey{}, tag)
}

// Transport is an http.RoundTripper that serves requests with Handler.
type Transport struct {
	Handler http.Handler
	// LocalAddr, if set, is exposed as http.LocalAddrContextKey (what net/http does for real listeners).
	LocalAddr net.Addr
	// Chunks, if non-empty, bounds the size of successive client-side body reads (cyclically), so
	// that read boundaries fall at arbitrary places inside the response body.
	Chunks []int
	// Fail, if set, is consulted first: a non-nil error is returned from RoundTrip (transport failure).
	Fail func(req *http.Request) error
	// FirstFlushLag, if positive, makes the first Flush of every GET response return that long after its
	// data reached the client (the client can act on an SSE "endpoint" event before the server goes on).
	FirstFlushLag time.Duration
	// FlushLagOnPOST extends FirstFlushLag to the 202 acknowledgements of POST requests (an instrumented or
	// proxied ResponseWriter whose Flush takes a moment). Other POST responses are left alone: the SDK flushes
	// event streams while it holds a plain mutex, and a sleeping holder stalls a bubble's clock.
	FlushLagOnPOST bool
	// DieAfterWrites, if set, is asked for every request: n >= 0 means the client of that exchange vanishes
	// unnoticed (as with CutQuietly) after the handler's first n writes to the response: write n+1 fails.
	DieAfterWrites func(req *http.Request) int

	mu        sync.Mutex
	exchanges []*Exchange
}

// Exchanges returns all exchanges so far.
func (t *Transport) Exchanges() []*Exchange {
	t.mu.Lock()
	defer t.mu.Unlock()
	return append([]*Exchange(nil), t.exchanges...)
}

// Client returns an http.Client using t.
func (t *Transport) Client() *http.Client { return &http.Client{Transport: t} }

func (t *Transport) RoundTrip(req *http.Request) (*http.Response, error) {
	if err := req.Context().Err(); err != nil {
		return nil, err
	}
	if t.Fail != nil {
		if err := t.Fail(req); err != nil {
			if req.Body != nil {
				req.Body.Close()
			}
			return nil, err
		}
	}
	var reqBody []byte
	if req.Body != nil {
		reqBody, _ = io.ReadAll(req.Body)
		req.Body.Close()
	}
	e := &Exchange{Method: req.Method, URL: req.URL.String(), Header: req.Header.Clone(), Body: reqBody, chunks: t.Chunks, dieAfter: -1}
	if t.DieAfterWrites != nil {
		e.dieAfter = t.DieAfterWrites(req)
	}
	e.cond = sync.NewCond(&e.mu)
	if tag, ok := req.Context().Value(tagKey{}).(string); ok {
		e.Tag = tag
	}
	t.mu.Lock()
	e.N = len(t.exchanges)
	t.exchanges = append(t.exchanges, e)
	t.mu.Unlock()

	sctx, cancel := context.WithCancel(context.Background())
	if t.LocalAddr != nil {
		sctx = context.WithValue(sctx, http.LocalAddrContextKey, t.LocalAddr)
	}
	e.cancel = cancel
	sreq, err := http.NewRequestWithContext(sctx, req.Method, req.URL.String(), bytes.NewReader(reqBody))
	if err != nil {
		cancel()
		return nil, err
	}
	sreq.Header = req.Header.Clone()
	if req.ContentLength < 0 && len(reqBody) > 0 {
		// a body of undeclared length arrives chunked, as with net/http
		sreq.ContentLength = -1
		sreq.TransferEncoding = []string{"chunked"}
	}
	sreq.Host = req.Host
	if sreq.Host == "" {
		sreq.Host = req.URL.Host
	}
	sreq.RemoteAddr = "192.0.2.1:1234"
	sreq.RequestURI = req.URL.RequestURI()
	if len(reqBody) == 0 && req.Body == nil {
		sreq.Body = http.NoBody
	}
	w := &respWriter{e: e, header: http.Header{}}
	if req.Method == "GET" || t.FlushLagOnPOST {
		w.firstFlushLag = t.FirstFlushLag
		w.lagOnlyAccepted = req.Method != "GET"
	}

	go func() {
		defer func() {
			if r := recover(); r != nil {
				if r != http.ErrAbortHandler {
					e.mu.Lock()
					e.panicVal = r
					e.mu.Unlock()
					panic(r)
				}
				// Aborted response: the client sees a broken body, not a clean end.
				e.Cut(io.ErrUnexpectedEOF)
			}
			e.mu.Lock()
			w.flushLocked()
			e.handlerDone = true
			e.cond.Broadcast()
			e.mu.Unlock()
			cancel()
		}()
		t.Handler.ServeHTTP(w, sreq)
	}()

	// Client going away while waiting / streaming cuts the exchange.
	stop := context.AfterFunc(req.Context(), func() { e.Cut(req.Context().Err()) })
	_ = stop

	e.mu.Lock()
	for !e.committed && !e.cut {
		e.cond.Wait()
	}
	if !e.committed && e.cut {
		err := e.cutErr
		e.mu.Unlock()
		if err == nil {
			err = io.ErrUnexpectedEOF
		}
		return nil, err
	}
	status, hdr := e.status, e.respHeader.Clone()
	e.mu.Unlock()

	return &http.Response{
		Status:        http.StatusText(status),
		StatusCode:    status,
		Proto:         "HTTP/1.1",
		ProtoMajor:    1,
		ProtoMinor:    1,
		Header:        hdr,
		Body:          &body{e: e},
		ContentLength: -1,
		Request:       req,
	}, nil
}

// Addr is a trivial net.Addr.
type Addr string

func (a Addr) Network() string { return "tcp" }
func (a Addr) String() string  { return string(a) }
