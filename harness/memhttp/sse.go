package memhttp

import (
	"bytes"
	"fmt"
	"strings"
)

// SSEvent is one complete server-sent event as read by the independent parser.
type SSEvent struct {
	Name  string
	ID    string
	Data  string
	Retry string
	End   int // offset just past the blank line that terminated the event
}

// ParseSSE is an independent reading of an SSE byte stream (WHATWG event-stream
// interpretation, restricted to LF/CRLF line ends): it returns the events that
// are *complete* (terminated by a blank line) within data. Comment lines are
// ignored; a trailing unterminated event is not returned.
func ParseSSE(data []byte) []SSEvent {
	var out []SSEvent
	var cur SSEvent
	var dataLines []string
	has := false
	off := 0
	for off < len(data) {
		nl := bytes.IndexByte(data[off:], '\n')
		if nl < 0 {
			break // incomplete line
		}
		line := string(data[off : off+nl])
		off += nl + 1
		line = strings.TrimSuffix(line, "\r")
		if line == "" {
			if has {
				cur.Data = strings.Join(dataLines, "\n")
				cur.End = off
				out = append(out, cur)
			}
			cur, dataLines, has = SSEvent{}, nil, false
			continue
		}
		if strings.HasPrefix(line, ":") {
			continue
		}
		field, value, _ := strings.Cut(line, ":")
		value = strings.TrimPrefix(value, " ")
		switch field {
		case "event":
			cur.Name, has = value, true
		case "id":
			cur.ID, has = value, true
		case "retry":
			cur.Retry, has = value, true
		case "data":
			dataLines = append(dataLines, value)
			has = true
		}
	}
	return out
}

// FormatSSE writes one event the way a typical server does (independent of the SDK's writer).
func FormatSSE(name, id, retry, data string) string {
	var b strings.Builder
	if name != "" {
		fmt.Fprintf(&b, "event: %s\n", name)
	}
	if id != "" {
		fmt.Fprintf(&b, "id: %s\n", id)
	}
	if retry != "" {
		fmt.Fprintf(&b, "retry: %s\n", retry)
	}
	for _, l := range strings.Split(data, "\n") {
		fmt.Fprintf(&b, "data: %s\n", l)
	}
	b.WriteString("\n")
	return b.String()
}
