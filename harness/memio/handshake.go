package memio

import (
	"context"
	"encoding/json"
	"fmt"
	"testing/synctest"

	"github.com/modelcontextprotocol/go-sdk/jsonrpc"
	"github.com/modelcontextprotocol/go-sdk/mcp"
)

// ConnectClient connects client over sc, playing the server side of the legacy
// initialize handshake by hand (the scripted peer answers initialize with the
// requested version). Must be called inside a bubble. Writes are ungated
// during the handshake; sc.GateWrites is left false.
func ConnectClient(client *mcp.Client, sc *ScriptConn, version string, caps string) (*mcp.ClientSession, error) {
	type res struct {
		cs  *mcp.ClientSession
		err error
	}
	ch := make(chan res, 1)
	go func() {
		cs, err := client.Connect(context.Background(), sc.Transport(), &mcp.ClientSessionOptions{ProtocolVersion: version})
		ch <- res{cs, err}
	}()
	synctest.Wait()
	w := sc.Written()
	if len(w) != 1 {
		return nil, fmt.Errorf("handshake: expected 1 written message (initialize), got %d", len(w))
	}
	req, ok := w[0].(*jsonrpc.Request)
	if !ok || req.Method != "initialize" {
		return nil, fmt.Errorf("handshake: first message is not initialize: %#v", w[0])
	}
	if caps == "" {
		caps = `{"tools":{"listChanged":true},"logging":{}}`
	}
	result := fmt.Sprintf(`{"protocolVersion":%q,"capabilities":%s,"serverInfo":{"name":"scripted","version":"0"}}`, version, caps)
	sc.Inject(&jsonrpc.Response{ID: req.ID, Result: json.RawMessage(result)})
	synctest.Wait()
	select {
	case r := <-ch:
		return r.cs, r.err
	default:
		return nil, fmt.Errorf("handshake: Connect did not return after the initialize response")
	}
}

// ConnectClientFallback is like ConnectClient, but the client asks for the default (2026-07-28)
// protocol: the scripted peer rejects server/discover as an unknown method, so that the client falls
// back to the legacy initialize handshake, which the peer answers with version.
func ConnectClientFallback(client *mcp.Client, sc *ScriptConn, version string) (*mcp.ClientSession, error) {
	type res struct {
		cs  *mcp.ClientSession
		err error
	}
	ch := make(chan res, 1)
	go func() {
		cs, err := client.Connect(context.Background(), sc.Transport(), nil)
		ch <- res{cs, err}
	}()
	synctest.Wait()
	w := sc.Written()
	if len(w) != 1 {
		return nil, fmt.Errorf("handshake: expected 1 written message (server/discover), got %d", len(w))
	}
	req, ok := w[0].(*jsonrpc.Request)
	if !ok || req.Method != "server/discover" {
		return nil, fmt.Errorf("handshake: first message is not server/discover: %#v", w[0])
	}
	sc.Inject(&jsonrpc.Response{ID: req.ID, Error: &jsonrpc.Error{Code: -32601, Message: "method not found"}})
	synctest.Wait()
	w = sc.Written()
	if len(w) != 2 {
		return nil, fmt.Errorf("handshake: expected initialize after the rejected discover, got %d messages", len(w))
	}
	req, ok = w[1].(*jsonrpc.Request)
	if !ok || req.Method != "initialize" {
		return nil, fmt.Errorf("handshake: second message is not initialize: %#v", w[1])
	}
	result := fmt.Sprintf(`{"protocolVersion":%q,"capabilities":{"tools":{"listChanged":true},"logging":{}},"serverInfo":{"name":"scripted","version":"0"}}`, version)
	sc.Inject(&jsonrpc.Response{ID: req.ID, Result: json.RawMessage(result)})
	synctest.Wait()
	select {
	case r := <-ch:
		return r.cs, r.err
	default:
		return nil, fmt.Errorf("handshake: Connect did not return after the initialize response")
	}
}

// ResetWritten forgets the messages written so far (after the handshake).
func (c *ScriptConn) ResetWritten() {
	c.mu.Lock()
	c.written = nil
	c.writeTimes = nil
	c.mu.Unlock()
}
