// Package memio provides the in-memory plumbing the checks run the SDK on:
// a buffered byte pipe, a raw newline-delimited JSON peer that speaks bytes
// (not SDK types), and a fully scripted mcp.Connection whose every Read, Write
// and Close is under the control of the test script. Nothing here uses
// wall-clock time or real sockets, so it works inside synctest bubbles.
package memio

import (
	"bytes"
	"encoding/json"
	"errors"
	"io"
	"sync"
)

// half is one direction of a Pipe: an unbounded buffer with blocking reads.
type half struct {
	mu     sync.Mutex
	cond   *sync.Cond
	buf    bytes.Buffer
	closed bool  // writer side closed: reads drain then EOF
	rerr   error // reader side closed: writes fail
	failW  error // injected: writes fail with this error from now on
	stallW bool  // injected: writes block (the reader has stopped draining) until the pipe is closed
}

func newHalf() *half {
	h := &half{}
	h.cond = sync.NewCond(&h.mu)
	return h
}

func (h *half) write(p []byte) (int, error) {
	h.mu.Lock()
	defer h.mu.Unlock()
	if h.failW != nil {
		return 0, h.failW
	}
	for h.stallW && !h.closed && h.rerr == nil && h.failW == nil {
		h.cond.Wait()
	}
	if h.failW != nil {
		return 0, h.failW
	}
	if h.closed || h.rerr != nil {
		return 0, io.ErrClosedPipe
	}
	h.buf.Write(p)
	h.cond.Broadcast()
	return len(p), nil
}

func (h *half) read(p []byte) (int, error) {
	h.mu.Lock()
	defer h.mu.Unlock()
	for h.buf.Len() == 0 {
		if h.rerr != nil {
			return 0, h.rerr
		}
		if h.closed {
			return 0, io.EOF
		}
		h.cond.Wait()
	}
	return h.buf.Read(p)
}

func (h *half) closeWrite() {
	h.mu.Lock()
	h.closed = true
	h.cond.Broadcast()
	h.mu.Unlock()
}

func (h *half) closeRead(err error) {
	h.mu.Lock()
	if h.rerr == nil {
		h.rerr = err
	}
	h.cond.Broadcast()
	h.mu.Unlock()
}

// End is one end of a Pipe; it is an io.ReadWriteCloser.
type End struct {
	r, w   *half
	once   sync.Once
	Closed chan struct{} // closed when Close has been called on this end
	// OnClose, if set before use, is called once, synchronously, when Close is first called.
	OnClose func()
}

// NewPipe returns two connected ends. Writes never block (unbounded buffer);
// reads block until data, EOF (peer closed) or a local Close.
func NewPipe() (*End, *End) {
	a, b := newHalf(), newHalf()
	return &End{r: a, w: b, Closed: make(chan struct{})}, &End{r: b, w: a, Closed: make(chan struct{})}
}

func (e *End) Read(p []byte) (int, error)  { return e.r.read(p) }
func (e *End) Write(p []byte) (int, error) { return e.w.write(p) }

// Close closes both directions of this end: the peer reads EOF after draining,
// local reads fail, peer writes fail.
func (e *End) Close() error {
	e.once.Do(func() {
		if e.OnClose != nil {
			e.OnClose()
		}
		e.w.closeWrite()
		e.r.closeRead(io.ErrClosedPipe)
		close(e.Closed)
	})
	return nil
}

// StallWrites makes every later Write on this end block, as when the peer has stopped reading and the
// pipe is full; a blocked Write returns io.ErrClosedPipe once either end is closed.
func (e *End) StallWrites() {
	e.w.mu.Lock()
	e.w.stallW = true
	e.w.mu.Unlock()
}

// CloseWrite closes only the outgoing direction of this end (the peer reads EOF after draining) and keeps
// reading: the two directions of a stdio-like link fail independently.
func (e *End) CloseWrite() { e.w.closeWrite() }

// FailWrites makes every later Write on this end fail with err (the write side
// is "broken" while reads keep working).
func (e *End) FailWrites(err error) {
	e.w.mu.Lock()
	e.w.failW = err
	e.w.cond.Broadcast()
	e.w.mu.Unlock()
}

// RawPeer speaks newline-delimited JSON over one End as plain bytes. A reader
// goroutine collects every complete JSON value the other side writes.
type RawPeer struct {
	end *End

	mu   sync.Mutex
	recv []json.RawMessage
	err  error // terminal read error (io.EOF when the SDK closed the connection)
	done chan struct{}
}

// NewRawPeer starts the collector goroutine.
func NewRawPeer(end *End) *RawPeer {
	p := &RawPeer{end: end, done: make(chan struct{})}
	go func() {
		defer close(p.done)
		dec := json.NewDecoder(end)
		for {
			var raw json.RawMessage
			if err := dec.Decode(&raw); err != nil {
				p.mu.Lock()
				p.err = err
				p.mu.Unlock()
				return
			}
			p.mu.Lock()
			p.recv = append(p.recv, raw)
			p.mu.Unlock()
		}
	}()
	return p
}

// Send writes one line (a newline is appended).
func (p *RawPeer) Send(line string) error {
	_, err := p.end.Write([]byte(line + "\n"))
	return err
}

// Received returns everything collected so far (call after quiescence).
func (p *RawPeer) Received() []json.RawMessage {
	p.mu.Lock()
	defer p.mu.Unlock()
	return append([]json.RawMessage(nil), p.recv...)
}

// Ended reports whether the SDK side closed the stream (or it broke), and how.
func (p *RawPeer) Ended() (bool, error) {
	p.mu.Lock()
	defer p.mu.Unlock()
	return p.err != nil, p.err
}

// Close closes the peer's end (the SDK reads EOF) and waits for the collector.
func (p *RawPeer) Close() {
	p.end.Close()
	<-p.done
}

var ErrInjected = errors.New("injected transport failure")

// Halves presents this end as a separate reader and writer, each with its own Close, the way a stdio-like
// transport holds them (mcp.IOTransport with distinct Reader and Writer). Closing the reader closes only the
// incoming direction, closing the writer only the outgoing one (which also releases a stalled Write). Each
// Close returns the given error after doing its work (a descriptor some other owner has closed already).
func (e *End) Halves(readCloseErr, writeCloseErr error) (io.ReadCloser, io.WriteCloser) {
	return &readHalf{e, readCloseErr}, &writeHalf{e, writeCloseErr}
}

type readHalf struct {
	e   *End
	err error
}

func (r *readHalf) Read(p []byte) (int, error) { return r.e.Read(p) }
func (r *readHalf) Close() error               { r.e.r.closeRead(io.ErrClosedPipe); return r.err }

type writeHalf struct {
	e   *End
	err error
}

func (w *writeHalf) Write(p []byte) (int, error) { return w.e.Write(p) }
func (w *writeHalf) Close() error                { w.e.w.closeWrite(); return w.err }

// StdinLikeReader presents this end's incoming direction the way a process sees its standard input: Close
// returns err (possibly nil) and does NOT interrupt a Read that is already waiting for data.
func (e *End) StdinLikeReader(closeErr error) io.ReadCloser { return &stdinReader{e, closeErr} }

type stdinReader struct {
	e   *End
	err error
}

func (r *stdinReader) Read(p []byte) (int, error) { return r.e.Read(p) }
func (r *stdinReader) Close() error               { return r.err }
