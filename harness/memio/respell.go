package memio

import (
	"fmt"
	"strings"
)

// Respell rewrites the JSON text s into another spelling of the same JSON value: inside string literals
// (keys and values alike) characters are replaced by equivalent escape sequences. JSON decoders must treat
// the result exactly like the original; code that inspects raw bytes may not.
//
//	mode 0: unchanged
//	mode 1: every '/' is written \/
//	mode 2: every '/' is written \u002f
//	mode 3: the first character of every string literal (if it is an unescaped ASCII letter) is written \u00XX
//	mode 4: a space after every ':' and ',' outside strings, and mode 1 inside
//	mode 5: mode 4, and white space before the whole text (the SDK's line-delimited reader deliberately
//	        refuses anything but a line end right after a value, so none is added behind it)
func Respell(s string, mode int) string {
	if mode == 0 {
		return s
	}
	if mode == 5 {
		return " \t" + Respell(s, 4)
	}
	var b strings.Builder
	inStr, esc, first := false, false, false
	for i := 0; i < len(s); i++ {
		c := s[i]
		if !inStr {
			b.WriteByte(c)
			if c == '"' {
				inStr, first = true, true
			} else if mode == 4 && (c == ':' || c == ',') {
				b.WriteByte(' ')
			}
			continue
		}
		if esc {
			b.WriteByte(c)
			esc = false
			first = false
			continue
		}
		switch {
		case c == '\\':
			b.WriteByte(c)
			esc = true
		case c == '"':
			b.WriteByte(c)
			inStr = false
		case c == '/' && (mode == 1 || mode == 4):
			b.WriteString(`\/`)
		case c == '/' && mode == 2:
			b.WriteString("\\u002f")
		case mode == 3 && first && (c >= 'a' && c <= 'z' || c >= 'A' && c <= 'Z'):
			fmt.Fprintf(&b, `\u%04x`, c)
		default:
			b.WriteByte(c)
		}
		first = false
	}
	return b.String()
}
