package memio

import (
	"encoding/json"
	"reflect"
	"testing"
)

func TestRespellKeepsMeaning(t *testing.T) {
	in := `{"jsonrpc":"2.0","id":"a/b","method":"tools/call","params":{"_meta":{"io.modelcontextprotocol/protocolVersion":"2026-07-28"},"x":["\"/\\",1,null,true],"k\/":"é/"}}`
	var want any
	if err := json.Unmarshal([]byte(in), &want); err != nil {
		t.Fatal(err)
	}
	for m := 0; m <= 5; m++ {
		out := Respell(in, m)
		var got any
		if err := json.Unmarshal([]byte(out), &got); err != nil {
			t.Fatalf("mode %d: %v: %s", m, err, out)
		}
		if !reflect.DeepEqual(got, want) {
			t.Fatalf("mode %d changed the value: %s", m, out)
		}
		if m > 0 && out == in {
			t.Fatalf("mode %d changed nothing", m)
		}
	}
}
