package memio

import (
	"context"
	"errors"
	"io"
	"sync"
	"time"

	"github.com/modelcontextprotocol/go-sdk/jsonrpc"
	"github.com/modelcontextprotocol/go-sdk/mcp"
)

// WriteOutcome says how a gated Write completes.
type WriteOutcome int

const (
	WriteOK       WriteOutcome = iota // message accepted by the transport
	WriteBroken                       // transport broken: plain error
	WriteRejected                     // this message rejected, connection stays usable (wraps jsonrpc2.ErrRejected)
)

// PendingWrite is a Write call parked on its gate.
type PendingWrite struct {
	Seq     int
	Msg     jsonrpc.Message
	release chan error
	Done    bool // released or aborted by ctx
}

// ScriptConn is an mcp.Connection (and a jsonrpc2 Reader/Writer/Closer) that
// is driven entirely by the test: the test injects what Read returns, decides
// when and how every Write completes, and observes Close.
type ScriptConn struct {
	mu   sync.Mutex
	cond *sync.Cond

	inq      []readItem
	closed   bool
	closeN   int
	closeSeq int // logical time of first Close

	GateWrites bool // if false, writes complete immediately with WriteOK
	writes     []*PendingWrite
	written    []jsonrpc.Message // messages whose Write returned nil, in completion order
	writeTimes []time.Time       // time.Now() (the bubble's clock) when each written message completed
	ClosedAt   time.Time         // time.Now() at the first Close
	// CloseErr is what Close returns after it has closed the connection (a transport whose own shutdown
	// reports a problem: a child process that exits non-zero, a farewell message that cannot be delivered).
	CloseErr error
	autoFail error // all later writes fail immediately with this

	clock    int                       // logical event counter
	OnWrite  func(msg jsonrpc.Message) // optional synchronous hook when a Write call starts
	Rejected error                     // the error used for WriteRejected (set by the user of the package)
	id       string
}

type readItem struct {
	msg jsonrpc.Message
	err error
}

func NewScriptConn() *ScriptConn {
	c := &ScriptConn{}
	c.cond = sync.NewCond(&c.mu)
	return c
}

// Transport returns an mcp.Transport whose Connect yields c.
func (c *ScriptConn) Transport() mcp.Transport { return scriptTransport{c} }

type scriptTransport struct{ c *ScriptConn }

func (t scriptTransport) Connect(context.Context) (mcp.Connection, error) { return t.c, nil }

func (c *ScriptConn) SessionID() string { return c.id }

// Tick returns the next logical timestamp.
func (c *ScriptConn) tick() int { c.clock++; return c.clock }

// Read implements mcp.Connection / jsonrpc2.Reader.
func (c *ScriptConn) Read(ctx context.Context) (jsonrpc.Message, error) {
	c.mu.Lock()
	defer c.mu.Unlock()
	for {
		if len(c.inq) > 0 {
			it := c.inq[0]
			c.inq = c.inq[1:]
			return it.msg, it.err
		}
		if c.closed {
			return nil, io.EOF
		}
		c.cond.Wait()
	}
}

// Inject queues a message for Read.
func (c *ScriptConn) Inject(msg jsonrpc.Message) {
	c.mu.Lock()
	c.inq = append(c.inq, readItem{msg: msg})
	c.cond.Broadcast()
	c.mu.Unlock()
}

// InjectRaw decodes wire bytes with the SDK's decoder and queues the message.
func (c *ScriptConn) InjectRaw(data string) error {
	msg, err := jsonrpc.DecodeMessage([]byte(data))
	if err != nil {
		return err
	}
	c.Inject(msg)
	return nil
}

// FailRead makes the next Read (after queued messages) return err (io.EOF for a clean end).
func (c *ScriptConn) FailRead(err error) {
	c.mu.Lock()
	c.inq = append(c.inq, readItem{err: err})
	c.cond.Broadcast()
	c.mu.Unlock()
}

// Write implements mcp.Connection / jsonrpc2.Writer.
func (c *ScriptConn) Write(ctx context.Context, msg jsonrpc.Message) error {
	c.mu.Lock()
	if c.OnWrite != nil {
		c.OnWrite(msg)
	}
	if c.autoFail != nil {
		err := c.autoFail
		c.mu.Unlock()
		return err
	}
	if c.closed {
		c.mu.Unlock()
		return io.ErrClosedPipe
	}
	if !c.GateWrites {
		c.written = append(c.written, msg)
		c.writeTimes = append(c.writeTimes, time.Now())
		c.mu.Unlock()
		return nil
	}
	pw := &PendingWrite{Seq: c.tick(), Msg: msg, release: make(chan error, 1)}
	c.writes = append(c.writes, pw)
	c.mu.Unlock()
	select {
	case err := <-pw.release:
		c.mu.Lock()
		pw.Done = true
		if err == nil {
			c.written = append(c.written, msg)
			c.writeTimes = append(c.writeTimes, time.Now())
		}
		c.mu.Unlock()
		return err
	case <-ctx.Done():
		c.mu.Lock()
		pw.Done = true
		c.mu.Unlock()
		return ctx.Err()
	}
}

// Pending returns the writes currently parked on their gate, oldest first.
func (c *ScriptConn) Pending() []*PendingWrite {
	c.mu.Lock()
	defer c.mu.Unlock()
	var out []*PendingWrite
	for _, w := range c.writes {
		if !w.Done {
			out = append(out, w)
		}
	}
	return out
}

// Release completes a parked write.
func (c *ScriptConn) Release(w *PendingWrite, o WriteOutcome) {
	var err error
	switch o {
	case WriteBroken:
		err = ErrInjected
	case WriteRejected:
		err = c.Rejected
	}
	select {
	case w.release <- err:
	default:
	}
}

// FailAllWrites makes every later Write fail immediately with err, and releases parked ones with it.
func (c *ScriptConn) FailAllWrites(err error) {
	c.mu.Lock()
	c.autoFail = err
	ws := append([]*PendingWrite(nil), c.writes...)
	c.mu.Unlock()
	for _, w := range ws {
		select {
		case w.release <- err:
		default:
		}
	}
}

// Written returns the messages whose Write succeeded, in order.
func (c *ScriptConn) Written() []jsonrpc.Message {
	c.mu.Lock()
	defer c.mu.Unlock()
	return append([]jsonrpc.Message(nil), c.written...)
}

// WriteTimes returns the completion time of each written message (parallel to Written).
func (c *ScriptConn) WriteTimes() []time.Time {
	c.mu.Lock()
	defer c.mu.Unlock()
	return append([]time.Time(nil), c.writeTimes...)
}

// Close implements mcp.Connection. It unblocks Read (EOF) and parked writes.
func (c *ScriptConn) Close() error {
	c.mu.Lock()
	c.closeN++
	if !c.closed {
		c.closed = true
		c.closeSeq = c.tick()
		c.ClosedAt = time.Now()
	}
	ws := append([]*PendingWrite(nil), c.writes...)
	c.cond.Broadcast()
	c.mu.Unlock()
	for _, w := range ws {
		select {
		case w.release <- io.ErrClosedPipe:
		default:
		}
	}
	return c.CloseErr
}

// IsClosed reports whether Close was called.
func (c *ScriptConn) IsClosed() bool {
	c.mu.Lock()
	defer c.mu.Unlock()
	return c.closed
}

// Now returns a fresh logical timestamp comparable with write/close sequence numbers.
func (c *ScriptConn) Now() int {
	c.mu.Lock()
	defer c.mu.Unlock()
	return c.tick()
}

// CloseSeq returns the logical time of the first Close (0 if not closed).
func (c *ScriptConn) CloseSeq() int {
	c.mu.Lock()
	defer c.mu.Unlock()
	return c.closeSeq
}

var _ = errors.New
