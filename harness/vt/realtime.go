package vt

// Real-time quiescence, for the few arrangements that cannot run in a synctest bubble: a goroutine that waits
// for a plain sync.Mutex is not "durably blocked" for synctest, so a bubble with such a waiter can neither
// advance its clock nor report a deadlock. A deadlock through a mutex (a lost unlock, Close taking the lock a
// blocked Write holds) is therefore only "inconclusive" there. Outside a bubble the same state can be decided
// from the goroutine dump, provided the arrangement arms no timers: when every goroutine of the process
// (other than the observer) is blocked and stays exactly so over several samples, nothing can ever run again.

import (
	"regexp"
	"runtime"
	"sort"
	"strings"
	"time"
)

var gHeaderRE = regexp.MustCompile(`^goroutine (\d+) \[([^\],]+)`)

// snapshot returns one line per goroutine other than the caller ("id state"), sorted, and whether any of
// them can run (running / runnable / in a system call).
func snapshot() (lines []string, busy bool, dump string) {
	buf := make([]byte, 8<<20)
	n := runtime.Stack(buf, true)
	dump = string(buf[:n])
	gs := strings.Split(dump, "\n\n")
	for i, g := range gs {
		if i == 0 {
			continue // the caller
		}
		m := gHeaderRE.FindStringSubmatch(firstLine(g))
		if m == nil {
			continue
		}
		state := m[2]
		switch state {
		case "running", "runnable", "syscall", "sleep":
			// (sleep: a timer is pending: not a final state)
			busy = true
		}
		// goroutines of the runtime and of the testing package that are parked for good do not matter,
		// but they are stable too, so they need no special treatment
		lines = append(lines, m[1]+" "+state)
	}
	sort.Strings(lines)
	return lines, busy, dump
}

// Quiesce waits (real time, at most max) until no goroutine other than the caller can run and the set of
// blocked goroutines has stayed the same over `stable` consecutive samples taken `every` apart. It reports
// whether that state was reached; the dump is the last one taken.
func Quiesce(max, every time.Duration, stable int) (quiet bool, dump string) {
	deadline := time.Now().Add(max)
	var prev []string
	same := 0
	for time.Now().Before(deadline) {
		cur, busy, d := snapshot()
		dump = d
		if !busy && prev != nil && equalStrings(prev, cur) {
			same++
			if same >= stable {
				return true, dump
			}
		} else {
			same = 0
		}
		prev = cur
		time.Sleep(every)
	}
	return false, dump
}

func equalStrings(a, b []string) bool {
	if len(a) != len(b) {
		return false
	}
	for i := range a {
		if a[i] != b[i] {
			return false
		}
	}
	return true
}

// MutexWaiters returns the stacks of the goroutines of dump that are waiting for a sync.Mutex or RWMutex.
func MutexWaiters(dump string) []string {
	var out []string
	for _, g := range strings.Split(dump, "\n\n") {
		h := firstLine(g)
		if strings.Contains(h, "[sync.Mutex.Lock") || strings.Contains(h, "[sync.RWMutex") || strings.Contains(h, "[semacquire") {
			out = append(out, trimStack(g))
		}
	}
	return out
}
