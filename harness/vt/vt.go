// Package vt is the common runtime of the verification harness: case
// registration, rapid driving, replay files, statistics for evidence, the
// synctest bubble runner and the known-findings table.
package vt

import (
	"encoding/json"
	"flag"
	"fmt"
	"hash/fnv"
	"os"
	"path/filepath"
	"regexp"
	"runtime"
	"sort"
	"strconv"
	"strings"
	"sync"
	"sync/atomic"
	"testing"
	"testing/synctest"
	"time"

	"pgregory.net/rapid"
)

// Result is what executing one generated case yields.
type Result struct {
	// Violations lists oracle failures; empty means the property held on this case.
	Violations []string
	// Desc is the case descriptor used for distinct counting (hashed).
	Desc string
	// NonTrivial reports whether the case satisfies the property's non-trivial rule.
	NonTrivial bool
	// Classes are labels counted in the evidence histogram.
	Classes []string
}

func (r *Result) Failf(format string, a ...any) {
	r.Violations = append(r.Violations, fmt.Sprintf(format, a...))
}

func (r *Result) Class(c ...string) { r.Classes = append(r.Classes, c...) }

type entry struct {
	prop string
	name string
	run  func(raw json.RawMessage) (Result, error)
}

var (
	regMu    sync.Mutex
	registry = map[string]*entry{}
)

// Prop is a registered property check over scripts of type S.
type Prop[S any] struct {
	Property string // e.g. "C20"
	Name     string // unique within the property, e.g. "seq"
	Gen      func(*rapid.T) S
	Run      func(S) Result
	Journal  bool // write the script to the journal before executing (crash evidence)
}

// Register makes p replayable by name.
func Register[S any](p *Prop[S]) *Prop[S] {
	regMu.Lock()
	defer regMu.Unlock()
	registry[p.Name] = &entry{prop: p.Property, name: p.Name, run: func(raw json.RawMessage) (Result, error) {
		var s S
		if err := json.Unmarshal(raw, &s); err != nil {
			return Result{}, err
		}
		return p.Run(s), nil
	}}
	return p
}

// ReplayFile is the on-disk format of replays, regressions and known findings' scripts.
type ReplayFile struct {
	Property   string          `json:"property"`
	Test       string          `json:"test"`
	Script     json.RawMessage `json:"script"`
	Violations []string        `json:"violations,omitempty"`
	Note       string          `json:"note,omitempty"`
}

func verifDir() string {
	if d := os.Getenv("VERIF_DIR"); d != "" {
		return d
	}
	return "/verif"
}

func replayDir(prop string) string {
	if d := os.Getenv("VERIF_REPLAY_DIR"); d != "" {
		return d
	}
	return filepath.Join(verifDir(), "replays", prop)
}

func shardTag() string {
	if s := os.Getenv("VERIF_SHARD"); s != "" {
		return "-s" + s
	}
	return ""
}

// Check drives p with rapid. Every random choice is inside p.Gen.
func (p *Prop[S]) Check(t *testing.T) {
	t.Helper()
	var jf *os.File
	// Every case is journalled before it runs (p.Journal is kept for older registrations): if the process
	// dies in the middle of a case - a panic on a goroutine of the code under test cannot be recovered
	// from here - the driver finds the script that was running and reports it with a crash replay.
	if true {
		dir := os.Getenv("VERIF_JOURNAL")
		if dir == "" {
			dir = filepath.Join(verifDir(), "work", "journal", p.Property)
		}
		os.MkdirAll(dir, 0o755)
		f, err := os.Create(filepath.Join(dir, fmt.Sprintf("%s-%s%s.json", p.Property, p.Name, shardTag())))
		if err == nil {
			jf = f
			defer func() {
				// Reaching here means no crash: drop the journal.
				name := f.Name()
				f.Close()
				os.Remove(name)
			}()
		}
	}
	tolerateStalls.Store(true)
	defer tolerateStalls.Store(false)
	rapid.Check(t, func(rt *rapid.T) {
		s := p.Gen(rt)
		if jf != nil {
			if b, err := json.Marshal(ReplayFile{Property: p.Property, Test: p.Name, Script: mustJSON(s), Note: "journal (case in progress when the process died)"}); err == nil {
				jf.Truncate(0)
				jf.WriteAt(b, 0)
			}
		}
		caseStalled.Store(false)
		caseStarted.Store(time.Now().UnixNano())
		res := p.Run(s)
		caseStarted.Store(0)
		if caseStalled.Swap(false) {
			addCounter("stalled_cases_set_aside", 1) // neither judged nor counted as a case
			return
		}
		if len(res.Violations) > 0 {
			path := p.writeReplay(s, res)
			failSeen.Store(true)
			fmt.Printf("VERIF-FAIL property=%s test=%s replay=%s :: %s\n", p.Property, p.Name, path, firstLine(res.Violations[0]))
			rt.Fatalf("property %s violated (%s):\n  %s\nscript: %s", p.Property, p.Name, strings.Join(res.Violations, "\n  "), mustJSON(s))
		}
		record(p.Name, s, res)
	})
}

func firstLine(s string) string {
	if i := strings.IndexByte(s, '\n'); i >= 0 {
		return s[:i]
	}
	return s
}

func mustJSON(v any) json.RawMessage {
	b, err := json.Marshal(v)
	if err != nil {
		panic(fmt.Sprintf("vt: script not JSON-serialisable: %v", err))
	}
	return b
}

func (p *Prop[S]) writeReplay(s S, res Result) string {
	dir := replayDir(p.Property)
	os.MkdirAll(dir, 0o755)
	path := filepath.Join(dir, fmt.Sprintf("%s%s.json", p.Name, shardTag()))
	b, _ := json.MarshalIndent(ReplayFile{Property: p.Property, Test: p.Name, Script: mustJSON(s), Violations: res.Violations}, "", " ")
	os.WriteFile(path, b, 0o644)
	return path
}

// RunOne executes one script outside rapid (used by enumerations). Violations
// are reported like in Check; it returns false if the case failed.
func (p *Prop[S]) RunOne(t *testing.T, s S) bool {
	res := p.Run(s)
	if len(res.Violations) > 0 {
		path := p.writeReplay(s, res)
		failSeen.Store(true)
		fmt.Printf("VERIF-FAIL property=%s test=%s replay=%s :: %s\n", p.Property, p.Name, path, firstLine(res.Violations[0]))
		t.Errorf("property %s violated (%s):\n  %s\nscript: %s", p.Property, p.Name, strings.Join(res.Violations, "\n  "), mustJSON(s))
		return false
	}
	record(p.Name, s, res)
	return true
}

// RunFile executes a replay file; it returns the result and the file.
func RunFile(path string) (Result, *ReplayFile, error) {
	b, err := os.ReadFile(path)
	if err != nil {
		return Result{}, nil, err
	}
	var rf ReplayFile
	if err := json.Unmarshal(b, &rf); err != nil {
		return Result{}, nil, fmt.Errorf("%s: %v", path, err)
	}
	regMu.Lock()
	e := registry[rf.Test]
	regMu.Unlock()
	if e == nil {
		return Result{}, &rf, fmt.Errorf("%s: unknown test %q in this package", path, rf.Test)
	}
	res, err := e.run(rf.Script)
	return res, &rf, err
}

// Replay is the body of every package's TestReplay: it executes $VERIF_REPLAY.
func Replay(t *testing.T) {
	path := os.Getenv("VERIF_REPLAY")
	if path == "" {
		t.Skip("VERIF_REPLAY not set")
	}
	res, rf, err := RunFile(path)
	if err != nil {
		fmt.Printf("VERIF-BROKEN %v\n", err)
		t.Fatal(err)
	}
	if len(res.Violations) > 0 {
		failSeen.Store(true)
		fmt.Printf("VERIF-FAIL property=%s test=%s replay=%s :: %s\n", rf.Property, rf.Test, path, firstLine(res.Violations[0]))
		t.Fatalf("replay %s: violated:\n  %s", path, strings.Join(res.Violations, "\n  "))
	}
	fmt.Printf("VERIF-REPLAY-OK %s\n", path)
}

// Regress is the body of every package's TestRegress: all committed minimal
// scripts under /verif/regress/<prop>/ must pass.
func Regress(t *testing.T, prop string) {
	files, _ := filepath.Glob(filepath.Join(verifDir(), "regress", prop, "*.json"))
	sort.Strings(files)
	for _, f := range files {
		res, rf, err := RunFile(f)
		if err != nil {
			fmt.Printf("VERIF-BROKEN %v\n", err)
			t.Errorf("%v", err)
			continue
		}
		addCounter("regress_files", 1)
		if len(res.Violations) > 0 {
			failSeen.Store(true)
			fmt.Printf("VERIF-FAIL property=%s test=%s replay=%s :: %s\n", rf.Property, rf.Test, f, firstLine(res.Violations[0]))
			t.Errorf("regression %s: violated:\n  %s", f, strings.Join(res.Violations, "\n  "))
		}
	}
}

// ---- known findings ---------------------------------------------------------

type Finding struct {
	ID       string          `json:"id"`
	Property string          `json:"property"`
	Status   string          `json:"status"` // "open" | "fixed"
	Commit   string          `json:"commit,omitempty"`
	What     string          `json:"what"`
	Test     string          `json:"test,omitempty"`
	Script   json.RawMessage `json:"script,omitempty"`
	Line     string          `json:"line,omitempty"`
}

var inKnown atomic.Bool

var (
	findingsOnce sync.Once
	findings     []Finding
)

func Findings() []Finding {
	findingsOnce.Do(func() {
		b, err := os.ReadFile(filepath.Join(verifDir(), "known_findings.json"))
		if err != nil {
			return
		}
		var doc struct {
			Findings []Finding `json:"findings"`
		}
		if err := json.Unmarshal(b, &doc); err != nil {
			panic("known_findings.json: " + err.Error())
		}
		findings = doc.Findings
	})
	return findings
}

// Open reports whether finding id is listed as open, i.e. its input class has to
// be excluded from generators (and counted).
func Open(id string) bool {
	if inKnown.Load() {
		return false // re-executing a recorded finding: nothing is steered away
	}
	for _, f := range Findings() {
		if f.ID == id && f.Status == "open" {
			return true
		}
	}
	return false
}

// Excluded counts one generated input that was steered away from an open finding's class.
func Excluded(id string) { addCounter("excluded_"+id, 1) }

// Known is the body of every package's TestKnown. For each open finding of prop
// whose test is registered here, the recorded minimal script is re-executed: if
// it still fails a KNOWN-FINDING line is printed, otherwise a note.
func Known(t *testing.T, prop string) {
	for _, f := range Findings() {
		if f.Property != prop || f.Status != "open" || f.Test == "" {
			continue
		}
		regMu.Lock()
		e := registry[f.Test]
		regMu.Unlock()
		if e == nil {
			continue
		}
		inKnown.Store(true)
		res, err := e.run(f.Script)
		inKnown.Store(false)
		if err != nil {
			fmt.Printf("VERIF-BROKEN known finding %s: %v\n", f.ID, err)
			t.Errorf("known finding %s: %v", f.ID, err)
			continue
		}
		if len(res.Violations) > 0 {
			fmt.Printf("KNOWN-FINDING: property=%s %s: %s\n", prop, f.ID, f.What)
			addCounter("known_open_reproduced", 1)
		} else {
			fmt.Printf("VERIF-NOTE known finding %s (property %s) no longer reproduces\n", f.ID, prop)
		}
	}
}

// ---- statistics -------------------------------------------------------------

type testStats struct {
	Evaluations int            `json:"evaluations"`
	NonTrivial  int            `json:"nontrivial"`
	Hashes      []uint64       `json:"hashes"`
	Classes     map[string]int `json:"classes"`
	Samples     []any          `json:"samples"`
	NTSamples   []any          `json:"nt_samples"`

	seen map[uint64]struct{}
}

var (
	statsMu  sync.Mutex
	stats    = map[string]*testStats{}
	counters = map[string]int{}
)

const maxHashes = 400000

func addCounter(k string, n int) {
	statsMu.Lock()
	counters[k] += n
	statsMu.Unlock()
}

// Counter adds n to a named counter that ends up in the evidence file.
func Counter(k string, n int) { addCounter(k, n) }

func record(name string, script any, res Result) {
	statsMu.Lock()
	defer statsMu.Unlock()
	st := stats[name]
	if st == nil {
		st = &testStats{Classes: map[string]int{}, seen: map[uint64]struct{}{}}
		stats[name] = st
	}
	st.Evaluations++
	for _, c := range res.Classes {
		st.Classes[c]++
	}
	if len(st.Samples) < 3 {
		st.Samples = append(st.Samples, json.RawMessage(mustJSON(script)))
	}
	if res.NonTrivial {
		st.NonTrivial++
		h := fnv.New64a()
		h.Write([]byte(name))
		h.Write([]byte{0})
		h.Write([]byte(res.Desc))
		k := h.Sum64()
		if _, ok := st.seen[k]; !ok && len(st.seen) < maxHashes {
			st.seen[k] = struct{}{}
			if len(st.NTSamples) < 3 {
				st.NTSamples = append(st.NTSamples, json.RawMessage(mustJSON(script)))
			}
		}
	}
}

// Main is every package's TestMain body.
func Main(m *testing.M) {
	flag.Parse()
	// The time budget (-test.timeout) is not a verdict. rapid stops generating when the deadline is near, judging
	// by the average case so far; on a machine whose load changes a late case can still overrun it, and the
	// testing package would then panic with nothing recorded. Shortly before that the run is ended here: what
	// was explored is flushed and the process exits with status 4, which the driver reads as "held on everything explored" - unless the case in
	// progress has been running for more than a minute, which is a hang, not an exhausted budget (exit 3).
	if f := flag.Lookup("test.timeout"); f != nil {
		if d, err := time.ParseDuration(f.Value.String()); err == nil && d > 2*time.Minute {
			time.AfterFunc(d-25*time.Second, func() {
				if st := caseStarted.Load(); st != 0 && time.Since(time.Unix(0, st)) > time.Minute {
					buf := make([]byte, 8<<20)
					k := runtime.Stack(buf, true)
					fmt.Printf("VERIF-WATCHDOG the time budget ended while one case had been running for %v\n%s\n", time.Since(time.Unix(0, st)).Round(time.Second), buf[:k])
					flushStats()
					os.Exit(3)
				}
				if failSeen.Load() {
					flushStats()
					os.Exit(1) // a violation was reported and was still being shrunk
				}
				addCounter("runs_cut_short_by_the_time_budget", 1)
				fmt.Printf("VERIF-CUTSHORT the time budget (%v) ended before the requested number of cases; what was explored is reported\n", d)
				flushStats()
				if stalledCases.Load() > 0 {
					os.Exit(3)
				}
				os.Exit(4) // (the testing package refuses os.Exit(0) during a test) the driver reads 4 as "held on everything explored"
			})
		}
	}
	code := m.Run()
	flushStats()
	if n := stalledCases.Load(); n > 0 && code == 0 {
		fmt.Printf("VERIF-WATCHDOG %d case(s) stalled virtual time and were set aside; no violation among the others\n", n)
		code = 3
	}
	os.Exit(code)
}

func flushStats() {
	path := os.Getenv("VERIF_STATS")
	if path == "" {
		return
	}
	statsMu.Lock()
	defer statsMu.Unlock()
	for _, st := range stats {
		st.Hashes = st.Hashes[:0]
		for k := range st.seen {
			st.Hashes = append(st.Hashes, k)
		}
	}
	out := map[string]any{"tests": stats, "counters": counters}
	b, _ := json.Marshal(out)
	os.MkdirAll(filepath.Dir(path), 0o755)
	os.WriteFile(path, b, 0o644)
}

// ---- bubbles ----------------------------------------------------------------

// Bubble runs f inside a synctest bubble (fake clock; all goroutines started by
// f belong to it). It returns "" if f returned and every goroutine of the bubble
// exited; otherwise a description (deadlock / leaked goroutines) including the
// stacks of the bubble's goroutines. It must not be used with t.Fatal inside f.
func Bubble(t *testing.T, f func()) (problem string) {
	// Wall-clock watchdog (real time: the caller is outside the bubble). A goroutine waiting for a plain
	// sync.Mutex is not "durably blocked" for synctest, so while its holder waits for something only the
	// passing of virtual time would bring, virtual time cannot advance and the case hangs for ever; that is
	// inconclusive, not a violation. While Prop.Check drives the cases such a case is set aside (its bubble
	// is abandoned: nothing in it can run any more) and the search goes on, so that a violation that can be
	// shown is still shown; the process then ends with status 3 unless it found one. Everywhere else
	// (replays, enumerations) the process ends at once. The driver maps status 3 to INCONCLUSIVE.
	limit := watchdog
	if stalledCases.Load() > 0 {
		limit = laterWatchdog
	}
	type outcome struct {
		problem  string
		panicVal any
	}
	done := make(chan outcome, 1)
	go func() {
		var o outcome
		defer func() {
			if r := recover(); r != nil {
				if msg := fmt.Sprint(r); strings.HasPrefix(msg, "deadlock:") {
					o.problem = msg + "\n" + bubbleStacks()
				} else {
					o.panicVal = r
				}
			}
			done <- o
		}()
		synctest.Test(t, func(*testing.T) { f() })
	}()
	timer := time.NewTimer(limit)
	defer timer.Stop()
	select {
	case o := <-done:
		if o.panicVal != nil {
			panic(o.panicVal)
		}
		return o.problem
	case <-timer.C:
	}
	n := stalledCases.Add(1)
	if n == 1 || !tolerateStalls.Load() {
		buf := make([]byte, 8<<20)
		k := runtime.Stack(buf, true)
		fmt.Printf("VERIF-STALL a case did not finish within %v of wall-clock time (virtual time stuck?)\n%s\n", limit, buf[:k])
	} else {
		fmt.Printf("VERIF-STALL another case did not finish within %v of wall-clock time (%d so far)\n", limit, n)
	}
	if !tolerateStalls.Load() || n >= maxStalls {
		fmt.Printf("VERIF-WATCHDOG %d case(s) stalled virtual time; giving up\n", n)
		flushStats()
		os.Exit(3)
	}
	caseStalled.Store(true)
	return "VERIF-STALL: the case stalled virtual time and was set aside"
}

var (
	tolerateStalls atomic.Bool  // Prop.Check is driving: a stalled case is set aside, the search goes on
	stalledCases   atomic.Int64 // cases set aside so far in this process
	caseStalled    atomic.Bool  // the case in progress was set aside: its result means nothing
	failSeen       atomic.Bool  // a VERIF-FAIL line was printed by this process
	caseStarted    atomic.Int64 // wall-clock start (unix ns) of the case in progress under Prop.Check, 0 between cases
)

const (
	laterWatchdog = 8 * time.Second // once a case has stalled, the next ones are given up sooner
	maxStalls     = 25
)

const watchdog = 45 * time.Second

var bubbleRE = regexp.MustCompile(`synctest bubble (\d+)`)

// bubbleStacks returns the stacks of the goroutines of the newest bubble.
func bubbleStacks() string {
	buf := make([]byte, 4<<20)
	n := runtime.Stack(buf, true)
	gs := strings.Split(string(buf[:n]), "\n\n")
	best := -1
	for _, g := range gs {
		if m := bubbleRE.FindStringSubmatch(firstLine(g)); m != nil {
			if id, _ := strconv.Atoi(m[1]); id > best {
				best = id
			}
		}
	}
	var out []string
	tag := fmt.Sprintf("synctest bubble %d]", best)
	for _, g := range gs {
		if strings.Contains(firstLine(g), tag) {
			out = append(out, trimStack(g))
		}
	}
	return strings.Join(out, "\n")
}

func trimStack(g string) string {
	lines := strings.Split(g, "\n")
	if len(lines) > 13 {
		lines = append(lines[:13], "\t...")
	}
	return strings.Join(lines, "\n")
}

// LiveBubbleGoroutines returns the headers+stacks of goroutines of the calling
// goroutine's bubble other than the caller itself. Call after synctest.Wait().
func LiveBubbleGoroutines() []string {
	buf := make([]byte, 4<<20)
	n := runtime.Stack(buf, true)
	gs := strings.Split(string(buf[:n]), "\n\n")
	if len(gs) == 0 {
		return nil
	}
	// The first goroutine in the dump is the caller.
	m := bubbleRE.FindStringSubmatch(firstLine(gs[0]))
	if m == nil {
		return nil
	}
	tag := "synctest bubble " + m[1] + "]"
	var out []string
	for _, g := range gs[1:] {
		h := firstLine(g)
		if strings.Contains(h, tag) && !strings.Contains(h, "synctest.Run") {
			out = append(out, trimStack(g))
		}
	}
	return out
}
