// Package wire builds client<->server links over every transport the SDK
// ships, entirely in memory (memio pipes, memhttp), for use inside bubbles.
package wire

import (
	"context"
	"fmt"
	"net/http"
	"time"

	"github.com/modelcontextprotocol/go-sdk/mcp"
	"github.com/modelcontextprotocol/go-sdk/verif/memhttp"
	"github.com/modelcontextprotocol/go-sdk/verif/memio"
)

// Kinds of link.
const (
	InMem     = "inmem"
	Pipe      = "pipe"
	SSE       = "sse"
	Stateful  = "stateful"
	Stateless = "stateless"
)

var Kinds = []string{InMem, Pipe, SSE, Stateful, Stateless}

type Config struct {
	Kind         string `json:"kind"`
	JSON         bool   `json:"json,omitempty"`          // streamable: JSONResponse
	Store        bool   `json:"store,omitempty"`         // streamable: MemoryEventStore
	Subset       string `json:"subset,omitempty"`        // inmem/pipe: "", "legacy", "legacy-old", "none" (server transport advertises a subset via ProtocolVersionSupporter)
	NoStandalone bool   `json:"no_standalone,omitempty"` // streamable client: DisableStandaloneSSE
	// EmptySessionID (stateful streamable only) asks the caller to configure ServerOptions.GetSessionID to
	// return "" (documented special case: no Mcp-Session-Id is issued, every request gets an ephemeral session).
	EmptySessionID bool `json:"empty_session_id,omitempty"`
	// ClientFirst (inmem/pipe with a Subset only): the server side connects 1 ms (virtual) after New
	// returns, so a client that connects at once already has its first message on the wire when the server
	// session starts reading.
	// (A transport may let the peer talk as soon as it is connected; the legacy SSE transport does.)
	ClientFirst bool `json:"client_first,omitempty"`
	// SlowFlush (sse; streamable: the first flush of every response, POST included): the server's first flush of the event stream (the endpoint event) returns 1 ms
	// after the client has seen it, so a prompt client POSTs before the handler has gone on.
	SlowFlush bool `json:"slow_flush,omitempty"`
}

func (c Config) String() string {
	s := fmt.Sprintf("%s/json=%v/store=%v/subset=%s/nosse=%v/emptyid=%v", c.Kind, c.JSON, c.Store, c.Subset, c.NoStandalone, c.EmptySessionID)
	if c.ClientFirst {
		s += "/clientfirst"
	}
	if c.SlowFlush {
		s += "/slowflush"
	}
	return s
}

// SubsetSupports is the version filter a "subset" server transport advertises.
func SubsetSupports(subset, v string) bool {
	switch subset {
	case "legacy":
		return v < "2026-07-28"
	case "legacy-old":
		return v <= "2025-06-18"
	case "none": // a transport pinned to a revision this SDK does not know: none of the SDK's versions
		return false
	}
	return true
}

type subsetTransport struct {
	mcp.Transport
	subset string
}

func (t subsetTransport) SupportsProtocolVersion(v string) bool { return SubsetSupports(t.subset, v) }

// Link is a ready-to-use pair: the server side is serving, ClientTransport can be given to Client.Connect.
type Link struct {
	Cfg             Config
	ClientTransport mcp.Transport
	HTTP            *memhttp.Transport    // HTTP kinds only
	Handler         http.Handler          // HTTP kinds only
	ServerSession   *mcp.ServerSession    // inmem/pipe only
	Store           *mcp.MemoryEventStore // when Cfg.Store
	closers         []func()
}

// TransportSupports says whether the link's server-side transport can serve version v
// (the SDK's documented rule: 2026-07-28 only on stdio-like and stateless HTTP).
func (c Config) TransportSupports(v string) bool {
	switch c.Kind {
	case SSE, Stateful:
		return v < "2026-07-28"
	case InMem, Pipe:
		return SubsetSupports(c.Subset, v)
	}
	return true
}

// New connects server to a fresh link of the given kind.
func New(server *mcp.Server, cfg Config) (*Link, error) {
	l := &Link{Cfg: cfg}
	ctx := context.Background()
	switch cfg.Kind {
	case InMem:
		st, ct := mcp.NewInMemoryTransports()
		var t mcp.Transport = st
		if cfg.Subset != "" {
			t = subsetTransport{st, cfg.Subset}
		}
		if cfg.ClientFirst && cfg.Subset != "" {
			l.ClientTransport = ct
			go func() {
				time.Sleep(time.Millisecond)
				server.Connect(ctx, t, nil)
			}()
			break
		}
		ss, err := server.Connect(ctx, t, nil)
		if err != nil {
			return nil, err
		}
		l.ServerSession, l.ClientTransport = ss, ct
	case Pipe:
		a, b := memio.NewPipe()
		var t mcp.Transport = &mcp.IOTransport{Reader: a, Writer: a}
		if cfg.Subset != "" {
			t = subsetTransport{t, cfg.Subset}
		}
		if cfg.ClientFirst && cfg.Subset != "" {
			l.ClientTransport = &mcp.IOTransport{Reader: b, Writer: b}
			go func() {
				time.Sleep(time.Millisecond)
				server.Connect(ctx, t, nil)
			}()
			break
		}
		ss, err := server.Connect(ctx, t, nil)
		if err != nil {
			return nil, err
		}
		l.ServerSession, l.ClientTransport = ss, &mcp.IOTransport{Reader: b, Writer: b}
	case SSE:
		h := mcp.NewSSEHandler(func(*http.Request) *mcp.Server { return server }, nil)
		l.Handler = h
		l.HTTP = &memhttp.Transport{Handler: h}
		if cfg.SlowFlush {
			l.HTTP.FirstFlushLag = time.Millisecond
		}
		l.ClientTransport = &mcp.SSEClientTransport{Endpoint: "http://mcp.example/sse", HTTPClient: l.HTTP.Client()}
	case Stateful, Stateless:
		opts := &mcp.StreamableHTTPOptions{Stateless: cfg.Kind == Stateless, JSONResponse: cfg.JSON}
		if cfg.Store {
			l.Store = mcp.NewMemoryEventStore(nil)
			opts.EventStore = l.Store
		}
		h := mcp.NewStreamableHTTPHandler(func(*http.Request) *mcp.Server { return server }, opts)
		l.Handler = h
		l.HTTP = &memhttp.Transport{Handler: h}
		if cfg.SlowFlush {
			// every first Flush of a response (GET and POST) returns 1 ms after its data reached the client
			l.HTTP.FirstFlushLag, l.HTTP.FlushLagOnPOST = time.Millisecond, true
		}
		l.ClientTransport = &mcp.StreamableClientTransport{Endpoint: "http://mcp.example/mcp", HTTPClient: l.HTTP.Client(), DisableStandaloneSSE: cfg.NoStandalone}
	default:
		return nil, fmt.Errorf("unknown link kind %q", cfg.Kind)
	}
	return l, nil
}
