#!/bin/sh
# Offline setup after a fresh restore: build the driver and pre-build every check's test binary.
export GOFLAGS=-mod=mod GOPROXY=off GOTOOLCHAIN=auto
unset GOSUMDB
set -e
mkdir -p /verif/work/bin /verif/evidence
cd /verif/harness
go build -o /verif/work/bin/driver ./driver
go test -vet=off -count=1 -run '^$' ./... >/dev/null
echo setup ok
