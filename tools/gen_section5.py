#!/usr/bin/env python3
"""Rewrites the findings table of DESIGN.md section 5 from known_findings.json."""
import json
s=open('/verif/DESIGN.md').read()
d=json.load(open('/verif/known_findings.json'))['findings']
rows=['| id | property | what failed | state |','|----|----------|-------------|-------|']
for f in d:
    st='fixed `%s`'%f['commit'] if f['status']=='fixed' else '**open** (known finding)'
    rows.append('| %s | %s | %s | %s |'%(f['id'],f['property'],f['what'].replace('|','/'),st))
b='<!-- findings-table-begin -->\n'; e='\n<!-- findings-table-end -->'
i=s.index(b)+len(b); j=s.index(e)
s=s[:i]+'\n'.join(rows)+s[j:]
nfixed=sum(1 for f in d if f['status']=='fixed'); nopen=len(d)-nfixed
import re
s=re.sub(r'\(\d+ repaired by `fix:`\s+commits in `/repo`, \d+ recorded as an open known finding\)','(%d repaired by `fix:`\ncommits in `/repo`, %d recorded as an open known finding)'%(nfixed,nopen),s)
open('/verif/DESIGN.md','w').write(s)
print(nfixed,'fixed',nopen,'open')
