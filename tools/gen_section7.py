#!/usr/bin/env python3
"""Rewrites section 7 of DESIGN.md from mutants/RESULTS.md and seeded/*/meta.json."""
import json, glob, re, os
res = open('/verif/mutants/RESULTS.md').read()
per = {}
cur = None
for line in res.splitlines():
    m = re.match(r'## (C\d+)$', line)
    if m: cur = m.group(1); per[cur] = []; continue
    m = re.match(r'- (\S+): (\w+)', line)
    if m and cur: per[cur].append((m.group(1), m.group(2)))
out = ['## 7. Sensitivity: which checks catch which broken trees', '',
 'Two kinds of deliberately broken trees were used; none is ever committed to `/repo` (patches are applied to',
 'scratch worktrees under `/tmp` by `mutants/run.sh`, which points the check at them through `VERIF_REPO`).', '',
 '**Hand-made mutants** (`mutants/CNN/*.diff`, written by whoever built the check, anchored in the', 
 "property's mechanism). Result of the quick tier per property (`mutants/RESULTS.md` has the list):", '',
 '| property | mutants | caught by the quick tier | not caught |', '|---|---|---|---|']
tot = caught = 0
for p in sorted(per):
    c = [n for n, r in per[p] if r == 'CAUGHT']; miss = [n for n, r in per[p] if r != 'CAUGHT']
    tot += len(per[p]); caught += len(c)
    out.append('| %s | %d | %d | %s |' % (p, len(per[p]), len(c), ', '.join(miss) or '-'))
out += ['', '%d of %d are caught; the others are equivalent or near-equivalent with respect to the property text' % (caught, tot),
 '(reasons in `mutants/RESULTS.md`).', '',
 '**Independently seeded changes** (`seeded/<id>/`): for each property a fresh sub-agent was given only the',
 "property's text and its own scratch worktree (nothing from `/verif`) and asked for a change that breaks the",
 'property, compiles, passes the existing suite and needs something specific to manifest, with a demonstration',
 'test. Each was re-confirmed by `seeded/confirm.sh` (demo passes without / fails with the patch; suite green',
 'with it) before being kept. Results of `./check CNN quick` on the patched tree:', '',
 '| id | what was changed | needs | result |', '|---|---|---|---|']
for d in sorted(glob.glob('/verif/seeded/C*-*')):
    m = json.load(open(d + '/meta.json'))
    r = 'caught'
    if m.get('history'): r = m['history']
    def clip(s, n): 
        s = ' '.join(str(s).split()).replace('|', '/')
        return s if len(s) <= n else s[:n-1] + '…'
    out.append('| %s | %s | %s | %s |' % (os.path.basename(d), clip(m.get('summary', ''), 260), clip(m.get('needs', ''), 200), clip(r, 220)))
missed_first = [os.path.basename(d) for d in sorted(glob.glob('/verif/seeded/C*-*')) if json.load(open(d + '/meta.json')).get('history')]
not_caught = [os.path.basename(d) for d in sorted(glob.glob('/verif/seeded/C*-*')) if str(json.load(open(d + '/meta.json')).get('history', '')).startswith('NOT CAUGHT')]
thorough_only = [os.path.basename(d) for d in sorted(glob.glob('/verif/seeded/C*-*')) if 'thorough' in str(json.load(open(d + '/meta.json')).get('detected_by', '')) and 'quick: MISSED' in str(json.load(open(d + '/meta.json')).get('detected_by', ''))]
missed_first = [x for x in missed_first if x not in not_caught and x not in thorough_only]
out += ['', '%d of the %d seeded changes are caught by the quick tier of the property they were written against; %d of those (%s)' % (len(glob.glob('/verif/seeded/C*-*')) - len(not_caught) - len(thorough_only), len(glob.glob('/verif/seeded/C*-*')), len(missed_first), ', '.join(missed_first)),
 'were missed at first and led to stronger generators or new arrangements (see the result column); the in-memory HTTP',
 'bridge also learnt to bound client-side read sizes, to buffer responses like net/http does and to pass on bodies of',
 'undeclared length. Not caught by their own property\'s check: %s (reasons in the result column).' % (', '.join(not_caught) or 'none'), 'Caught by the thorough tier only (scheduler-dependent): %s.' % (', '.join(thorough_only) or 'none'), '']
s = open('/verif/DESIGN.md').read()
i = s.find('## 7. Sensitivity')
if i >= 0: s = s[:i]
s = s.rstrip() + '\n\n---------------------------------------------------------------------------------\n\n' if i < 0 else s
open('/verif/DESIGN.md', 'w').write(s + '\n'.join(out) + '\n')
print('section 7 written:', tot, 'mutants,', len(glob.glob('/verif/seeded/C*-*')), 'seeded')
