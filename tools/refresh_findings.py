#!/usr/bin/env python3
"""Refresh the commit hashes recorded in known_findings.json after /repo history was rewritten (autosquash)."""
import json, subprocess
GREP = {
 'F5':'apply the initialization gate','F1':'decode JSON-RPC ids exactly','F1b':'decode JSON-RPC ids exactly',
 'F2':'do not track notifications as unresolved','F3':'answer initialize with missing','F9':'reject notifications/cancelled carrying',
 'F10':'do not panic on tools/call','F11':'cancelling a call answered with application/json','F12':'retire outgoing calls when the writer breaks',
 'F13':'a write refused during shutdown','F14':'keep writing responses during a graceful shutdown','F15':'keep the method member when encoding',
 'F16':'content nested in a tool_result','F17':'prompts/get never sends','F18':'WWW-Authenticate splitting handles',
 'F7':'streamable client discards an SSE event that is cut off','F7b':'an SSE line cut off by the end of the response body',
 'F19':'streamable client retries a transient HTTP status','F20':'a reconnected stream cut before its first event',
 'F6':'an x-mcp-header string argument with the empty value','F8':'a list or read result obtained before a cache invalidation',
 'F21':'the end of one subscriptions/listen stream does not cancel',
 'F22':'a message made in the context of an already answered request',
}
p='/verif/known_findings.json'
d=json.load(open(p))
for f in d['findings']:
    if f['status']=='fixed' and f['id'] in GREP:
        h=subprocess.check_output(['git','-C','/repo','log','--format=%h','--grep='+GREP[f['id']],'-1']).decode().strip()
        assert h, f['id']
        f['line']=f['line'].replace(f['commit'],h); f['commit']=h
json.dump(d,open(p,'w'),indent=1)
print('ok')
